// Package vt holds loss-free "virtual" implementations of the dbft value
// interfaces (hash, keys, transactions, blocks, pre-blocks, payloads,
// recovery messages).  Unlike the reference types in internal/consensus they
// keep every value the library hands to a constructor, and signatures are
// ideal (a keyed MAC that only the harness can compute for the speaking
// identity), so that unforgeability is a property of the generators.
package vt

import (
	"bytes"
	"crypto/sha256"
	"encoding/binary"
	"encoding/hex"
	"errors"
	"fmt"

	"github.com/nspcc-dev/dbft"
)

// H is the hash type used throughout the harness.
type H [16]byte

func (h H) String() string { return hex.EncodeToString(h[:4]) }

// Sum hashes a byte string into H.
func Sum(b []byte) H {
	s := sha256.Sum256(b)
	var h H
	copy(h[:], s[:16])
	return h
}

// Pub / Priv are validator identities. The identity number is global for
// a run (it is not the index in the validator list).
type (
	Pub  int
	Priv int
)

// Mac is the ideal signature of identity id over data within a domain.
func Mac(domain string, id int, data []byte) []byte {
	hh := sha256.New()
	hh.Write([]byte(domain))
	var b [8]byte
	binary.LittleEndian.PutUint64(b[:], uint64(int64(id)))
	hh.Write(b[:])
	hh.Write(data)
	return hh.Sum(nil)
}

// Tx is a transaction; the top bit marks a "poisoned" transaction which
// makes any block containing it fail application-level verification.
type Tx uint64

const PoisonBit = uint64(1) << 63

// ZeroTx is a transaction whose hash is the zero value of the hash type (applications exist where that is a
// legitimate hash: the reference Tx64(0), the pinned tests' testTx(0)).  It is in no pool and in no proposal.
const ZeroTx = Tx(0x5A45524F5A45524F)

func (t Tx) Hash() H {
	if t == ZeroTx {
		return H{}
	}
	var b [10]byte
	b[0], b[1] = 't', 'x'
	binary.LittleEndian.PutUint64(b[2:], uint64(t))
	return Sum(b[:])
}
func (t Tx) Poisoned() bool { return uint64(t)&PoisonBit != 0 }

// Header is the hashable content shared by blocks and pre-blocks.
type Header struct {
	Idx      uint32
	Prev     H
	Ts       uint64
	Nonce    uint64
	TxHashes []H
}

func (h *Header) HashData(domain string) []byte {
	var buf bytes.Buffer
	buf.WriteString(domain)
	var b [8]byte
	binary.LittleEndian.PutUint32(b[:4], h.Idx)
	buf.Write(b[:4])
	buf.Write(h.Prev[:])
	binary.LittleEndian.PutUint64(b[:], h.Ts)
	buf.Write(b[:])
	binary.LittleEndian.PutUint64(b[:], h.Nonce)
	buf.Write(b[:])
	binary.LittleEndian.PutUint32(b[:4], uint32(len(h.TxHashes)))
	buf.Write(b[:4])
	for _, x := range h.TxHashes {
		buf.Write(x[:])
	}
	return buf.Bytes()
}

func (h *Header) SameContent(o *Header) bool {
	if h.Idx != o.Idx || h.Prev != o.Prev || h.Ts != o.Ts || h.Nonce != o.Nonce || len(h.TxHashes) != len(o.TxHashes) {
		return false
	}
	for i := range h.TxHashes {
		if h.TxHashes[i] != o.TxHashes[i] {
			return false
		}
	}
	return true
}

// SaltedSigs makes Block.Sign non-deterministic in the way ECDSA (the reference crypto) is: every call appends a
// fresh 8-byte salt to the signature, Verify ignores it.  Signing one block twice then yields two different, equally
// valid signatures - and two different commit payloads.  Set per world (sim.NewWorld), the counter restarts there.
var (
	SaltedSigs bool
	SigSalt    uint64
)

const macLen = sha256.Size

// Block implements dbft.Block[H].
type Block struct {
	Header
	// AMEV is true for a final block built from a processed pre-block.
	AMEV bool
	// ShareBound: the final block depends on WHICH pre-commit shares its builder used (Shares, a bit per validator
	// index), as with the pinned suite's newAMEVBlockFromContext, which derives a transaction from the first M
	// current-view pre-commits it finds in the context.  Two blocks built from one pre-block at different moments may
	// then differ, so a library that builds the block twice hands over something else than what the commits signed.
	ShareBound bool
	Shares     uint64
	Txs        []dbft.Transaction[H]
	Sig  []byte
	// SignCalls counts Sign invocations (observed by monitors).
	OnSign func(b *Block, key dbft.PrivateKey)
	// FailSign, when set and returning true, makes this Sign call fail (a transient signer error: the callback's
	// contract allows an error, the library logs it and goes on without a commit).
	FailSign func() bool
}

var _ dbft.Block[H] = (*Block)(nil)

func (b *Block) domain() string {
	if b.AMEV {
		return "ablk"
	}
	return "blk"
}
func (b *Block) Hash() H       { return Sum(b.sigData()) }

// sigData is what the hash and the signatures cover.
func (b *Block) sigData() []byte {
	d := b.HashData(b.domain())
	if b.ShareBound {
		var x [9]byte
		x[0] = 's'
		binary.LittleEndian.PutUint64(x[1:], b.Shares)
		d = append(d, x[:]...)
	}
	return d
}
func (b *Block) PrevHash() H   { return b.Prev }
func (b *Block) MerkleRoot() H { return Sum(b.HashData("mrk")) }
func (b *Block) Index() uint32 { return b.Idx }

func (b *Block) Signature() []byte { return b.Sig }
func (b *Block) Sign(key dbft.PrivateKey) error {
	if b.OnSign != nil {
		b.OnSign(b, key)
	}
	if b.FailSign != nil && b.FailSign() {
		return errors.New("vt: scripted transient signer failure")
	}
	k, ok := key.(Priv)
	if !ok {
		return errors.New("vt: no private key")
	}
	b.Sig = Mac("sig", int(k), b.sigData())
	if SaltedSigs {
		SigSalt++
		b.Sig = binary.LittleEndian.AppendUint64(b.Sig, SigSalt)
	}
	return nil
}
func (b *Block) Verify(key dbft.PublicKey, sign []byte) error {
	k, ok := key.(Pub)
	if !ok {
		return errors.New("vt: bad public key")
	}
	if len(sign) != macLen && !(SaltedSigs && len(sign) == macLen+8) {
		return errors.New("vt: bad signature length")
	}
	if !bytes.Equal(Mac("sig", int(k), b.sigData()), sign[:macLen]) {
		return errors.New("vt: bad signature")
	}
	return nil
}
func (b *Block) Transactions() []dbft.Transaction[H]       { return b.Txs }
func (b *Block) SetTransactions(txs []dbft.Transaction[H]) { b.Txs = txs }

// SignFor is the signature identity id would produce for this block.
func (b *Block) SignFor(id int) []byte { return Mac("sig", id, b.sigData()) }

// PreDataTxOnly selects what a pre-commit share is bound to: the whole pre-block content (false) or, as with
// NeoX's threshold decryption shares, only the height and the transaction list (true) - then the shares for two
// proposals of one view that differ in nonce or timestamp only are interchangeable.  Set per world (sim.NewWorld).
var PreDataTxOnly bool

func (p *PreBlock) shareData() []byte {
	if PreDataTxOnly {
		h := Header{Idx: p.Idx, TxHashes: p.TxHashes}
		return h.HashData("pblk-tx")
	}
	return p.HashData("pblk")
}

// PreBlock implements dbft.PreBlock[H].
type PreBlock struct {
	Header
	Txs       []dbft.Transaction[H]
	D         []byte
	OnSetData func(pb *PreBlock, key dbft.PrivateKey)
	// FailSetData, when set and returning true, makes this SetData call fail (transient error, as for Block.FailSign).
	FailSetData func() bool
}

var _ dbft.PreBlock[H] = (*PreBlock)(nil)

func (p *PreBlock) Data() []byte { return p.D }
func (p *PreBlock) SetData(key dbft.PrivateKey) error {
	if p.OnSetData != nil {
		p.OnSetData(p, key)
	}
	if p.FailSetData != nil && p.FailSetData() {
		return errors.New("vt: scripted transient failure of pre-commit data construction")
	}
	k, ok := key.(Priv)
	if !ok {
		return errors.New("vt: no private key")
	}
	p.D = Mac("pre", int(k), p.shareData())
	return nil
}
func (p *PreBlock) Verify(key dbft.PublicKey, data []byte) error {
	k, ok := key.(Pub)
	if !ok {
		return errors.New("vt: bad public key")
	}
	if !bytes.Equal(Mac("pre", int(k), p.shareData()), data) {
		return errors.New("vt: bad pre-commit data")
	}
	return nil
}
func (p *PreBlock) Transactions() []dbft.Transaction[H]       { return p.Txs }
func (p *PreBlock) SetTransactions(txs []dbft.Transaction[H]) { p.Txs = txs }
func (p *PreBlock) DataFor(id int) []byte                     { return Mac("pre", id, p.shareData()) }

// Final builds the anti-MEV final block for a pre-block: a deterministic
// function of the pre-block content (any M valid shares decrypt to the same
// result).
func (p *PreBlock) Final() *Block {
	b := &Block{Header: p.Header, AMEV: true}
	b.TxHashes = append([]H(nil), p.TxHashes...)
	b.Txs = p.Txs
	return b
}

// Bodies of consensus messages.
type (
	PrepareRequest struct {
		Ts     uint64
		N      uint64
		Hashes []H
	}
	PrepareResponse struct{ Prep H }
	ChangeView      struct {
		NewView byte
		R       dbft.ChangeViewReason
		Ts      uint64
	}
	Commit          struct{ Sig []byte }
	PreCommit       struct{ D []byte }
	RecoveryRequest struct{ Ts uint64 }
	// RecoveryMessage embeds the original payloads.
	RecoveryMessage struct{ Embedded []*Payload }
)

func (p *PrepareRequest) Timestamp() uint64      { return p.Ts }
func (p *PrepareRequest) Nonce() uint64          { return p.N }
func (p *PrepareRequest) TransactionHashes() []H { return p.Hashes }
func (p *PrepareResponse) PreparationHash() H    { return p.Prep }
func (c *ChangeView) NewViewNumber() byte        { return c.NewView }
func (c *ChangeView) Reason() dbft.ChangeViewReason {
	return c.R
}
func (c *Commit) Signature() []byte          { return c.Sig }
func (c *PreCommit) Data() []byte            { return c.D }
func (r *RecoveryRequest) Timestamp() uint64 { return r.Ts }

// Payload implements dbft.ConsensusPayload[H].
type Payload struct {
	T    dbft.MessageType
	Ht   uint32
	V    byte
	Idx  uint16
	Body any
	// Author is the identity that really produced the payload (the ideal
	// signature on the envelope). Not part of the hash.
	Author int
	hash   *H
}

var _ dbft.ConsensusPayload[H] = (*Payload)(nil)

func (p *Payload) ViewNumber() byte       { return p.V }
func (p *Payload) Type() dbft.MessageType { return p.T }
func (p *Payload) Payload() any           { return p.Body }
func (p *Payload) GetChangeView() dbft.ChangeView {
	return p.Body.(*ChangeView)
}

// The typed getters are strict like the reference implementation's: asking a payload for a
// body of another type is a caller's bug and panics.
func (p *Payload) GetPrepareRequest() dbft.PrepareRequest[H]   { return p.Body.(*PrepareRequest) }
func (p *Payload) GetPrepareResponse() dbft.PrepareResponse[H] { return p.Body.(*PrepareResponse) }
func (p *Payload) GetPreCommit() dbft.PreCommit                { return p.Body.(*PreCommit) }
func (p *Payload) GetCommit() dbft.Commit                      { return p.Body.(*Commit) }
func (p *Payload) GetRecoveryRequest() dbft.RecoveryRequest    { return p.Body.(*RecoveryRequest) }
func (p *Payload) GetRecoveryMessage() dbft.RecoveryMessage[H] {
	return p.Body.(*RecoveryMessage)
}
func (p *Payload) ValidatorIndex() uint16 { return p.Idx }
func (p *Payload) SetValidatorIndex(i uint16) {
	if p.Idx != i {
		p.Idx = i
		p.hash = nil
	}
}
func (p *Payload) Height() uint32 { return p.Ht }

func (p *Payload) encode() []byte {
	var buf bytes.Buffer
	var b [8]byte
	buf.WriteByte(byte(p.T))
	binary.LittleEndian.PutUint32(b[:4], p.Ht)
	buf.Write(b[:4])
	buf.WriteByte(p.V)
	binary.LittleEndian.PutUint16(b[:2], p.Idx)
	buf.Write(b[:2])
	u64 := func(x uint64) { binary.LittleEndian.PutUint64(b[:], x); buf.Write(b[:]) }
	switch x := p.Body.(type) {
	case *PrepareRequest:
		u64(x.Ts)
		u64(x.N)
		u64(uint64(len(x.Hashes)))
		for _, h := range x.Hashes {
			buf.Write(h[:])
		}
	case *PrepareResponse:
		buf.Write(x.Prep[:])
	case *ChangeView:
		buf.WriteByte(x.NewView)
		buf.WriteByte(byte(x.R))
		u64(x.Ts)
	case *Commit:
		u64(uint64(len(x.Sig)))
		buf.Write(x.Sig)
	case *PreCommit:
		u64(uint64(len(x.D)))
		buf.Write(x.D)
	case *RecoveryRequest:
		u64(x.Ts)
	case *RecoveryMessage:
		u64(uint64(len(x.Embedded)))
		for _, e := range x.Embedded {
			h := e.Hash()
			buf.Write(h[:])
		}
	default:
		buf.WriteString(fmt.Sprintf("?%T", p.Body))
	}
	return buf.Bytes()
}

func (p *Payload) Hash() H {
	if _, isRec := p.Body.(*RecoveryMessage); isRec {
		// embedded list may still grow through AddPayload
		return Sum(p.encode())
	}
	if p.hash == nil {
		h := Sum(p.encode())
		p.hash = &h
	}
	return *p.hash
}

// Summary is a short human-readable rendering.
func (p *Payload) Summary() string {
	s := fmt.Sprintf("%s(h=%d v=%d i=%d", p.T, p.Ht, p.V, p.Idx)
	switch x := p.Body.(type) {
	case *PrepareRequest:
		s += fmt.Sprintf(" ts=%d n=%d txs=%d", x.Ts, x.N, len(x.Hashes))
	case *PrepareResponse:
		s += " prep=" + x.Prep.String()
	case *ChangeView:
		s += fmt.Sprintf(" nv=%d %s", x.NewView, x.R)
	case *Commit:
		s += fmt.Sprintf(" sig=%x", trunc(x.Sig))
	case *PreCommit:
		s += fmt.Sprintf(" d=%x", trunc(x.D))
	case *RecoveryMessage:
		s += " ["
		for i, e := range x.Embedded {
			if i > 0 {
				s += " "
			}
			s += fmt.Sprintf("%s/%d/%d", shortType(e.T), e.V, e.Idx)
		}
		s += "]"
	}
	return s + ")#" + p.Hash().String()
}

func trunc(b []byte) []byte {
	if len(b) > 3 {
		return b[:3]
	}
	return b
}

func shortType(t dbft.MessageType) string {
	switch t {
	case dbft.ChangeViewType:
		return "CV"
	case dbft.PrepareRequestType:
		return "PQ"
	case dbft.PrepareResponseType:
		return "PR"
	case dbft.CommitType:
		return "CM"
	case dbft.PreCommitType:
		return "PC"
	case dbft.RecoveryRequestType:
		return "RQ"
	case dbft.RecoveryMessageType:
		return "RM"
	}
	return fmt.Sprintf("?%02x", byte(t))
}

// ShortType is exported for trace rendering.
func ShortType(t dbft.MessageType) string { return shortType(t) }

// Recovery message: acceptance rules mirror neo-go's, where each compact
// entry carries the original signature and the payload is rebuilt with the
// wrapper's height (and, for preparations, the wrapper's view) before the
// signature is checked: an embedded payload survives only if it is
// bit-identical to what its author signed, i.e. if its height (and view for
// preparations) equals the wrapper's and its author is the validator its
// index designates.

func (m *RecoveryMessage) AddPayload(p dbft.ConsensusPayload[H]) {
	pp, ok := p.(*Payload)
	if !ok {
		return
	}
	switch pp.T {
	case dbft.PrepareRequestType, dbft.PrepareResponseType, dbft.ChangeViewType, dbft.PreCommitType, dbft.CommitType:
		m.Embedded = append(m.Embedded, pp)
	}
}

func authentic(e *Payload, vals []dbft.PublicKey) bool {
	if int(e.Idx) >= len(vals) {
		return false
	}
	k, ok := vals[e.Idx].(Pub)
	return ok && int(k) == e.Author
}

func (m *RecoveryMessage) pick(w dbft.ConsensusPayload[H], vals []dbft.PublicKey, t dbft.MessageType, sameView bool) []dbft.ConsensusPayload[H] {
	var out []dbft.ConsensusPayload[H]
	for _, e := range m.Embedded {
		if e.T != t || e.Ht != w.Height() || !authentic(e, vals) {
			continue
		}
		if sameView && e.V != w.ViewNumber() {
			continue
		}
		out = append(out, e)
	}
	return out
}

func (m *RecoveryMessage) GetPrepareRequest(w dbft.ConsensusPayload[H], vals []dbft.PublicKey, primary uint16) dbft.ConsensusPayload[H] {
	for _, e := range m.pick(w, vals, dbft.PrepareRequestType, true) {
		if e.ValidatorIndex() == primary {
			return e
		}
	}
	return nil
}
func (m *RecoveryMessage) GetPrepareResponses(w dbft.ConsensusPayload[H], vals []dbft.PublicKey) []dbft.ConsensusPayload[H] {
	return m.pick(w, vals, dbft.PrepareResponseType, true)
}
func (m *RecoveryMessage) GetChangeViews(w dbft.ConsensusPayload[H], vals []dbft.PublicKey) []dbft.ConsensusPayload[H] {
	return m.pick(w, vals, dbft.ChangeViewType, false)
}
func (m *RecoveryMessage) GetPreCommits(w dbft.ConsensusPayload[H], vals []dbft.PublicKey) []dbft.ConsensusPayload[H] {
	return m.pick(w, vals, dbft.PreCommitType, false)
}
func (m *RecoveryMessage) GetCommits(w dbft.ConsensusPayload[H], vals []dbft.PublicKey) []dbft.ConsensusPayload[H] {
	return m.pick(w, vals, dbft.CommitType, false)
}
func (m *RecoveryMessage) PreparationHash() *H {
	for _, e := range m.Embedded {
		if e.T == dbft.PrepareRequestType {
			h := e.Hash()
			return &h
		}
	}
	for _, e := range m.Embedded {
		if r, ok := e.Body.(*PrepareResponse); ok {
			h := r.Prep
			return &h
		}
	}
	return nil
}

// New builds a payload authored by identity author.
func New(t dbft.MessageType, height uint32, view byte, idx uint16, author int, body any) *Payload {
	return &Payload{T: t, Ht: height, V: view, Idx: idx, Body: body, Author: author}
}
