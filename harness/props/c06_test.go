package props

import (
	"fmt"
	"math/big"
	"os"
	"strconv"
	"testing"
	"time"

	"github.com/nspcc-dev/dbft"
	"github.com/nspcc-dev/dbft/verifharness/sim"
	"github.com/nspcc-dev/dbft/verifharness/vt"
	"go.uber.org/zap"
	"pgregory.net/rapid"
)

var (
	mkC06 = func() []*sim.Mon { return []*sim.Mon{sim.MonC06()} }
	shC06 = Shape{}
)

func init() { regSafety("C06", mkC06, shC06) }

// c06node is a bare library instance with N validators whose ledger height the test controls.
type c06node struct {
	d      *dbft.DBFT[vt.H]
	height uint32
	vals   []dbft.PublicKey
	my     int
}

func newC06(n, my int) *c06node {
	c := &c06node{my: my}
	c.vals = allPubs[:n:n]
	d, err := dbft.New[vt.H](
		dbft.WithTimer[vt.H](fixedTimer{}),
		dbft.WithLogger[vt.H](zap.NewNop()),
		dbft.WithCurrentHeight[vt.H](func() uint32 { return c.height }),
		dbft.WithCurrentBlockHash[vt.H](func() vt.H { return vt.H{} }),
		dbft.WithGetValidators[vt.H](func(...dbft.Transaction[vt.H]) []dbft.PublicKey { return c.vals }),
		dbft.WithGetKeyPair[vt.H](func([]dbft.PublicKey) (int, dbft.PrivateKey, dbft.PublicKey) {
			if c.my < 0 {
				return -1, nil, nil
			}
			return c.my, vt.Priv(c.my), vt.Pub(c.my)
		}),
		dbft.WithWatchOnly[vt.H](func() bool { return true }), // never speaks: only the context arithmetic is under test
		dbft.WithNewBlockFromContext[vt.H](func(*dbft.Context[vt.H]) dbft.Block[vt.H] { return &vt.Block{} }),
		dbft.WithNewConsensusPayload[vt.H](func(c *dbft.Context[vt.H], t dbft.MessageType, m any) dbft.ConsensusPayload[vt.H] {
			return vt.New(t, c.BlockIndex, c.ViewNumber, 0, 0, m)
		}),
		dbft.WithNewPrepareRequest[vt.H](func(ts, n uint64, hs []vt.H) dbft.PrepareRequest[vt.H] { return &vt.PrepareRequest{} }),
		dbft.WithNewPrepareResponse[vt.H](func(h vt.H) dbft.PrepareResponse[vt.H] { return &vt.PrepareResponse{} }),
		dbft.WithNewChangeView[vt.H](func(byte, dbft.ChangeViewReason, uint64) dbft.ChangeView { return &vt.ChangeView{} }),
		dbft.WithNewCommit[vt.H](func([]byte) dbft.Commit { return &vt.Commit{} }),
		dbft.WithNewRecoveryRequest[vt.H](func(uint64) dbft.RecoveryRequest { return &vt.RecoveryRequest{} }),
		dbft.WithNewRecoveryMessage[vt.H](func() dbft.RecoveryMessage[vt.H] { return &vt.RecoveryMessage{} }),
	)
	if err != nil {
		panic(err)
	}
	c.d = d
	return c
}

// allPubs is built once: boxing 65535 keys per validator count would dominate the run.
var allPubs = func() []dbft.PublicKey {
	p := make([]dbft.PublicKey, 65535)
	for i := range p {
		p[i] = vt.Pub(i)
	}
	return p
}()

type fixedTimer struct{}

func (fixedTimer) Now() time.Time                    { return epoch0 }
func (fixedTimer) Reset(uint32, byte, time.Duration) {}
func (fixedTimer) Extend(time.Duration)              {}
func (fixedTimer) Height() uint32                    { return 0 }
func (fixedTimer) View() byte                        { return 0 }
func (fixedTimer) C() <-chan time.Time               { return nil }

// refFsearch: largest f with 3f+1 <= n, by search.
func refFsearch(n int) int {
	f := 0
	for 3*(f+1)+1 <= n {
		f++
	}
	return f
}

func refPrimaryBig(h uint32, v byte, n int) int {
	x := new(big.Int).Sub(big.NewInt(int64(h)), big.NewInt(int64(v)))
	x.Mod(x, big.NewInt(int64(n))) // Euclidean modulus: always in [0, n)
	return int(x.Int64())
}

func refPrimary64(h uint32, v byte, n int) int {
	p := (int64(h) - int64(v)) % int64(n)
	if p < 0 {
		p += int64(n)
	}
	return int(p)
}

// TestC06 enumerates every validator count 1..65535 x every view 0..255 at
// boundary heights, plus rotation-over-views / rotation-over-heights checks.
func TestC06(t *testing.T) {
	SkipUnlessSelected(t, "C06")
	e := GetEnv("C06")
	defer e.Flush()
	shards, _ := strconv.Atoi(os.Getenv("VERIF_SHARDS"))
	if shards <= 0 {
		shards = 1
	}
	maxN := 65535
	if s := os.Getenv("VERIF_C06_MAXN"); s != "" {
		maxN, _ = strconv.Atoi(s)
	}
	fail := func(key, msg string) {
		e.Violation(key, msg, "")
		t.Errorf("%s", msg)
	}
	first := true
	for n := 1 + e.Shard; n <= maxN; n += shards {
		c := newC06(n, -1)
		started := false
		// CurrentHeight values; BlockIndex = value+1 (wraps to 0 for 2^32-1)
		heights := []uint32{0, 1, 2, uint32(n - 1), uint32(n), uint32(n + 1), 1<<31 - 1, 1 << 31, 1<<32 - 2, 1<<32 - 1}
		if n > 4096 && e.Tier != "thorough" {
			// every re-initialisation clears ~100 bytes per validator: keep the quick tier to the three most telling heights
			heights = []uint32{uint32(n - 1), 1<<31 - 1, 1<<32 - 1}
		}
		evals, nt := 0, 0
		for _, ch := range heights {
			c.height = ch
			if !started {
				c.d.Start(0)
				started = true
			} else {
				c.d.Reset(0)
			}
			d := c.d
			if d.N() != n {
				fail("N", fmt.Sprintf("N()=%d for %d validators", d.N(), n))
			}
			F, M := refFsearch(n), n-refFsearch(n)
			if d.F() != F || d.M() != M {
				fail("quorum-arithmetic", fmt.Sprintf("N=%d: F()=%d M()=%d, want F=%d M=%d", n, d.F(), d.M(), F, M))
			}
			if !(2*d.M()-n > d.F()) || !(d.M() <= n-d.F()) {
				fail("quorum-intersection", fmt.Sprintf("N=%d: M=%d F=%d: two quorums do not share more than F validators or a quorum needs a faulty one", n, d.M(), d.F()))
			}
			h := d.BlockIndex
			if h != ch+1 {
				fail("height", fmt.Sprintf("BlockIndex=%d after Reset at ledger height %d", h, ch))
			}
			for v := 0; v < 256; v++ {
				got := d.GetPrimaryIndex(byte(v))
				want := refPrimary64(h, byte(v), n)
				if int(got) != want || int(got) >= n {
					fail("primary-index", fmt.Sprintf("N=%d h=%d v=%d: GetPrimaryIndex=%d, want %d", n, h, v, got, want))
					break
				}
				evals++
				if int64(h)-int64(v) < 0 || h >= 1<<31 || n > 1 {
					nt++
				}
			}
			if v0 := d.GetPrimaryIndex(0); int(d.PrimaryIndex) != int(v0) {
				fail("primary-index-field", fmt.Sprintf("N=%d h=%d: PrimaryIndex=%d but GetPrimaryIndex(0)=%d", n, h, d.PrimaryIndex, v0))
			}
			// big-integer reference on a subset
			if n%97 == 1 || n < 50 {
				for _, v := range []byte{0, 1, 2, 127, 128, 255} {
					if int(d.GetPrimaryIndex(v)) != refPrimaryBig(h, v, n) {
						fail("primary-index", fmt.Sprintf("N=%d h=%d v=%d disagrees with the big-integer reference", n, h, v))
					}
				}
			}
			// rotation over views: N consecutive views hit every index exactly once (N <= 256)
			if n <= 256 {
				for _, v0 := range []int{0, 1, 256 - n} {
					seen := make([]bool, n)
					for k := 0; k < n; k++ {
						i := d.GetPrimaryIndex(byte(v0 + k))
						if seen[i] {
							fail("view-rotation", fmt.Sprintf("N=%d h=%d: views %d..%d visit index %d twice", n, h, v0, v0+n-1, i))
							break
						}
						seen[i] = true
					}
					evals += n
					nt += n
				}
			}
		}
		// rotation over heights at a fixed view: N consecutive heights hit every index once
		if n <= 512 || (n <= 4096 && n%257 == 0) {
			for _, base := range []uint32{0, 1<<31 - uint32(n/2) - 1, ^uint32(0) - uint32(2*n) - 7} { // never across the 2^32 wrap, where h mod N necessarily jumps
				for _, v := range []byte{0, 3} {
					seen := make([]bool, n)
					for k := 0; k < n; k++ {
						c.height = base + uint32(k)
						c.d.Reset(0)
						i := c.d.GetPrimaryIndex(v)
						if seen[i] {
							fail("height-rotation", fmt.Sprintf("N=%d view %d: heights from %d visit index %d twice within N heights", n, v, base+1, i))
							break
						}
						seen[i] = true
					}
					evals += n
					nt += n
				}
			}
		}
		// identical on every node: an instance that is itself a validator computes the same
		if n <= 64 {
			c2 := newC06(n, n/2)
			c2.height = c.height
			c2.d.Start(0)
			for v := 0; v < 256; v++ {
				if c2.d.GetPrimaryIndex(byte(v)) != c.d.GetPrimaryIndex(byte(v)) {
					fail("primary-differs-between-nodes", fmt.Sprintf("N=%d v=%d: two nodes disagree on the primary", n, v))
				}
			}
			evals += 256
		}
		e.BulkCases(evals, nt, "grid")
		if first || n == 4+e.Shard {
			first = false
			e.Sample(map[string]any{"N": n, "F": c.d.F(), "M": c.d.M(), "heights": fmt.Sprint(heights), "views": "0..255", "primary(h=BlockIndex,v=0..3)": []uint{c.d.GetPrimaryIndex(0), c.d.GetPrimaryIndex(1), c.d.GetPrimaryIndex(2), c.d.GetPrimaryIndex(3)}})
		}
	}
	e.S.Exhaustive = maxN == 65535
	// drawn heights on top of the grid
	rapid.Check(t, func(rt *rapid.T) {
		n := rapid.IntRange(1, 65535).Draw(rt, "N")
		ch := rapid.Uint32().Draw(rt, "height")
		v := rapid.Byte().Draw(rt, "view")
		c := newC06(n, -1)
		c.height = ch
		c.d.Start(0)
		got := c.d.GetPrimaryIndex(v)
		if int(got) != refPrimaryBig(ch+1, v, n) {
			e.Violation("primary-index", fmt.Sprintf("N=%d ledger height %d view %d: GetPrimaryIndex=%d, want %d", n, ch, v, got, refPrimaryBig(ch+1, v, n)), "")
			rt.Fatalf("primary index mismatch")
		}
		e.Case(FPString(fmt.Sprintf("%d/%d/%d", n, ch, v)), n > 1, map[string]int{"drawn": 1}, nil)
	})
	// the thresholds in use in every state the adversarial driver reaches (validator sets of 1..7 that may change
	// between heights, Byzantine identities, view changes): F, M, the primary, and "more than F committed or lost"
	rapid.Check(t, SafetyProp(e, mkC06, shC06, func(w *sim.World) bool {
		return w.Stats["c06_exactly_f_committed_or_lost"] > 0
	}))
	if t.Failed() {
		return
	}
	// the validator list changes between heights of one instance (it is re-read at every height): the arithmetic in
	// effect, and everything that is counted per validator, is that of the current list
	rapid.Check(t, func(rt *rapid.T) {
		counts := rapid.SliceOfN(rapid.OneOf(rapid.IntRange(1, 12), rapid.IntRange(1, 300)), 2, 5).Draw(rt, "counts")
		ch := rapid.Uint32Range(0, 1<<32-8).Draw(rt, "height")
		my := -1
		if rapid.Bool().Draw(rt, "validator") {
			my = 0
		}
		c := newC06(counts[0], my)
		shrinks := 0
		for k, n := range counts {
			c.vals = allPubs[:n:n]
			c.height = ch + uint32(k)
			if k == 0 {
				c.d.Start(0)
			} else {
				c.d.Reset(0)
				if n < counts[k-1] {
					shrinks++
				}
			}
			d := c.d
			bad := func(key, msg string) {
				e.Violation(key, msg, fmt.Sprintf("counts=%v height=%d my=%d", counts, ch, my))
				rt.Fatalf("%s", msg)
			}
			F := refFsearch(n)
			if d.N() != n || d.F() != F || d.M() != n-F {
				bad("quorum-arithmetic-after-list-change", fmt.Sprintf("validator counts %v, step %d: N()=%d F()=%d M()=%d, want %d/%d/%d", counts, k, d.N(), d.F(), d.M(), n, F, n-F))
			}
			for _, v := range []byte{0, 1, 2, 255} {
				if got := d.GetPrimaryIndex(v); int(got) != refPrimaryBig(c.height+1, v, n) {
					bad("primary-index-after-list-change", fmt.Sprintf("validator counts %v, step %d, view %d: GetPrimaryIndex=%d, want %d", counts, k, v, got, refPrimaryBig(c.height+1, v, n)))
				}
			}
			if int(d.PrimaryIndex) != refPrimaryBig(c.height+1, 0, n) {
				bad("primary-index-after-list-change", fmt.Sprintf("validator counts %v, step %d: PrimaryIndex=%d", counts, k, d.PrimaryIndex))
			}
			// nobody has been heard at the new height: all N validators (but the node itself) count as lost, none as committed - not more
			// (a quorum of the current N must stay reachable: M + F = N)
			if lost, com := d.CountFailed(), d.CountCommitted(); lost+com > n || lost < n-1 || (my < 0 && lost != n) || com != 0 {
				bad("counted-validators-exceed-N", fmt.Sprintf("validator counts %v, step %d: at a fresh height CountFailed()=%d CountCommitted()=%d with N=%d", counts, k, lost, com, n))
			}
		}
		e.Case(FPString(fmt.Sprint(counts, ch, my)), shrinks > 0, map[string]int{"list_changes": 1, "with_shrink": b2i(shrinks > 0)}, nil)
	})
}

func b2i(b bool) int {
	if b {
		return 1
	}
	return 0
}
