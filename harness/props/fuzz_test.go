package props

import (
	"testing"

	"github.com/nspcc-dev/dbft/verifharness/sim"
)

// FuzzC11 drives the adversarial world generator (with C11 probes) from fuzz bytes:
// coverage-guided search for panics and for inadmissible inputs that change state.
func FuzzC11(f *testing.F) {
	f.Add([]byte{})
	f.Add([]byte{3, 1, 0, 0, 0, 2, 1, 0, 0, 5, 0, 1, 1, 1, 1, 0, 0, 0, 0, 0, 0, 0, 0, 0, 0, 0, 0, 0, 0, 0, 0, 0})
	f.Add([]byte{6, 1, 1, 2, 0, 1, 3, 2, 1, 0, 1, 2, 9, 9, 9, 9, 60, 61, 62, 63, 64, 65, 66, 67, 68, 69, 70, 71, 72, 73, 74, 75, 76, 77, 78, 79, 80, 81, 82, 83, 84, 85, 86, 87, 88, 89, 90})
	f.Fuzz(func(t *testing.T, b []byte) {
		if len(b) > 4096 {
			return
		}
		w := RunSafety(&BytesSrc{B: b}, nil, false, shC11)
		for _, v := range w.Viols {
			if v.Prop == "C11" {
				t.Fatalf("C11 [%s]: %s", v.Key, v.Msg)
			}
		}
	})
}

var _ = sim.Scramble
