package props

import (
	"fmt"
	"time"

	"github.com/nspcc-dev/dbft/verifharness/sim"
	"pgregory.net/rapid"
)

// Shape tunes the shared adversarial-asynchronous world generator towards
// what a property needs.
type Shape struct {
	MaxN          int
	MinN          int
	MaxHeights    int
	NoFaults      bool // all validators honest
	NoRestart     bool
	ForceAMEV     int // 0: drawn, 1: off, 2: on
	Profile       string
	StepsFactor   int // percent
	Watchers      bool
	ChangingSets  bool // validator set changes between heights (C05)
	MaybeChanging int  // percent of runs with changing validator sets
	// ChangingFaults: percent of the worlds with changing validator sets that also contain faulty validators (Byzantine
	// identities or a restart budget), never more per height than the smallest list of the run tolerates.
	ChangingFaults int
	ManyTxs       bool
	Avoid         map[string]bool
	Probes        int
	ShareBound    int // percent of anti-MEV worlds whose final block depends on the builder's share set at the last height
	// EquivFocus: percent of the worlds run under the equivocation-focus profile with a Byzantine validator that is the
	// primary of the second (or first) view of the first height, so that an equivocating primary of a view > 0 facing
	// nodes that lag behind in a lower view is the rule there, not a one-in-a-million coincidence.
	EquivFocus int
	// LockPressure: percent of the worlds run under the lock-pressure profile (commits held back except towards one
	// node, frequent timeouts).
	LockPressure int
	// FlagFlips: the operator may set a taking-part validator's watch-only flag in the middle of a view and withdraw a
	// key in the middle of a height (the flag may be cleared again in any world) - always on in worlds with Watchers.
	FlagFlips bool
}

var epoch0 = time.Date(2024, 1, 1, 0, 0, 0, 0, time.UTC)

func pick(r sim.Src, label string, weights ...int) int {
	total := 0
	for _, w := range weights {
		total += w
	}
	x := sim.Scramble(r.Intn(label, total), total)
	for i, w := range weights {
		if x < w {
			return i
		}
		x -= w
	}
	return len(weights) - 1
}

// RunSafety draws a configuration and runs one adversarial-asynchronous world.
func RunSafety(r sim.Src, mons []*sim.Mon, keepLog bool, sh Shape) *sim.World {
	maxN := sh.MaxN
	if maxN == 0 {
		maxN = 7
	}
	var n int
	switch {
	case maxN <= 7:
		n = 1 + pick(r, "N", 3, 3, 4, 40, 10, 10, 30)
	default:
		n = 1 + pick(r, "N", 2, 2, 3, 30, 8, 8, 25, 7, 7, 8)
	}
	if n > maxN {
		n = maxN
	}
	if n < sh.MinN {
		n = sh.MinN
	}
	if sh.MaybeChanging > 0 && sim.Scramble(r.Intn("changing", 100), 100) < sh.MaybeChanging {
		sh.ChangingSets = true
	}
	F := (n - 1) / 3
	ids := n
	watch := map[int]bool{}
	if sh.Watchers || r.Intn("watcher", 5) == 0 {
		ids++ // an extra identity outside the validator list
		if r.Intn("watchflag", 3) == 0 && n >= 4 {
			watch[r.Intn("watchid", n)] = true // a validator with the watch-only flag: a silent one
		}
	}
	focus := sh.EquivFocus > 0 && !sh.NoFaults && !sh.ChangingSets && F > 0 && sim.Scramble(r.Intn("equivfocus", 100), 100) < sh.EquivFocus
	setMode, setShift, changingFaults := 0, 0, false
	if sh.ChangingSets {
		setMode = r.Intn("setmode", 3)
		setShift = 1 + r.Intn("setshift", 3)
		if sh.ChangingFaults > 0 && !sh.NoFaults && sim.Scramble(r.Intn("changingfaults", 100), 100) < sh.ChangingFaults {
			changingFaults = true
			if setMode == 1 { // sizes alternate between n and n-1 (n+1 for a single validator): the smaller list bounds the faults
				if n > 1 {
					F = min(F, (n-2)/3)
				} else {
					F = 0
				}
			}
		}
	}
	nf := 0
	if !sh.NoFaults && (!sh.ChangingSets || changingFaults) && F > 0 {
		nf = r.Intn("faulty", F+1)
		if focus && nf == 0 {
			nf = 1
		}
		if len(watch) > 0 && nf == F {
			nf-- // the flagged validator is silent: it uses one fault slot for liveness, keep safety runs within F anyway
		}
	}
	var byz []int
	budget := 0
	for i := 0; i < nf; i++ {
		if sh.NoRestart || r.Intn("faultkind", 10) < 7 {
			// choose a not yet chosen validator identity (scan forward from a drawn start)
			c := r.Intn("byzid", n)
			for k := 0; k < n; k++ {
				cand := (c + k) % n
				dup := watch[cand]
				for _, b := range byz {
					if b == cand {
						dup = true
					}
				}
				if !dup {
					byz = append(byz, cand)
					break
				}
			}
		} else {
			budget++
		}
	}
	startTip := []uint32{0, 1, 2, 7, 100, 1000003}[r.Intn("tip", 6)]
	if focus {
		if len(byz) == 0 { // every fault slot went to a restart budget
			c := 0
			for watch[c] {
				c++
			}
			byz, budget = append(byz, c), budget-1
		}
		pv := 1
		if r.Intn("focusview0", 4) == 0 {
			pv = 0
		}
		id := int((int64(startTip)+1-int64(pv))%int64(n)+int64(n)) % n
		ok := !watch[id]
		for _, b := range byz[1:] {
			if b == id {
				ok = false
			}
		}
		if ok {
			byz[0] = id
		}
		sh.Profile = "equivfocus"
	}
	amev := int64(-1)
	am := sh.ForceAMEV
	if am == 0 {
		am = 1 + pick(r, "amev", 45, 35, 20)
	}
	switch am {
	case 2:
		amev = 0
	case 3:
		amev = int64(startTip) + 2
	}
	base := make([]int, n)
	for i := range base {
		base[i] = i
	}
	valDesc := fmt.Sprintf("const[0..%d]", n-1)
	validators := func(h uint32) []int { return base }
	if sh.ChangingSets {
		// per-height rotation / resize of the validator list over identities 0..ids-1
		ids = n + 2
		mode, shift := setMode, setShift
		valDesc = fmt.Sprintf("changing(mode=%d,shift=%d,n=%d,ids=%d)", mode, shift, n, ids)
		validators = func(h uint32) []int {
			k := int(h-startTip) - 1
			if k < 0 {
				k = 0
			}
			switch mode {
			case 0: // rotate membership over ids
				out := make([]int, n)
				for i := range out {
					out[i] = (i + k*shift) % ids
				}
				return out
			case 1: // alternate sizes n and n-1 (or n+1)
				sz := n
				if k%2 == 1 {
					if n > 1 {
						sz = n - 1
					} else {
						sz = n + 1
					}
				}
				out := make([]int, sz)
				for i := range out {
					out[i] = (i + k) % ids
				}
				return out
			default: // reverse order on odd heights: own index changes
				out := make([]int, n)
				for i := range out {
					if k%2 == 1 {
						out[i] = n - 1 - i
					} else {
						out[i] = i
					}
				}
				return out
			}
		}
	}
	cfg := sim.Cfg{
		IDs: ids, Validators: validators, ValDesc: valDesc, StartTip: startTip, AMEVHeight: amev,
		TimePerBlock: []time.Duration{time.Second, 15 * time.Second}[r.Intn("tpb", 2)],
		TsIncrement:  1_000_000, Epoch: epoch0,
	}
	if r.Intn("dynblocktime", 5) == 0 {
		cfg.MaxTimePerBlock = cfg.TimePerBlock * time.Duration([]int{2, 3, 4, 6, 8}[r.Intn("dynratio", 5)]) / 2 // the maximum-block-time extension is configured, ratio 1, 1.5, 2, 3 or 4
	}
	if r.Intn("blocktimebytip", 4) == 0 {
		// chain-governed block times: every other height runs eight times faster
		base, maxb := cfg.TimePerBlock, cfg.MaxTimePerBlock
		cfg.BlockTimeByTip = func(tip uint32) (time.Duration, time.Duration) {
			if tip%2 == 1 {
				return base / 8, maxb / 8
			}
			return base, maxb
		}
	}
	if r.Intn("saltedsigs", 2) == 1 {
		cfg.SaltedSigs = true // signing twice gives two different valid signatures, as with the reference ECDSA
	}
	if amev >= 0 && r.Intn("predata", 2) == 1 {
		cfg.PreDataTxOnly = true // NeoX-like shares: valid for every pre-block of the height with these transactions
	}
	shareBound := amev >= 0 && sh.ShareBound > 0 && sim.Scramble(r.Intn("sharebound", 100), 100) < sh.ShareBound
	if !focus && sh.Profile == "" && sh.LockPressure > 0 && sim.Scramble(r.Intn("lockpressure", 100), 100) < sh.LockPressure {
		sh.Profile = "lockpressure"
	}
	w := sim.NewWorld(cfg, r, byz, watch, mons, keepLog)
	if cfg.PreDataTxOnly {
		w.Stat("predata_tx_only")
	}
	if cfg.SaltedSigs {
		w.Stat("salted_signatures")
	}
	if cfg.MaxTimePerBlock > 0 {
		w.Stat("dynamic_block_time")
	}
	if cfg.BlockTimeByTip != nil {
		w.Stat("block_time_follows_ledger")
	}
	w.FaultBudget = budget
	heights := 1 + r.Intn("heights", max(1, sh.MaxHeights))
	if sh.MaxHeights == 0 {
		heights = 1 + r.Intn("heights", 3)
	}
	if shareBound {
		w.Cfg.ShareBoundFrom = cfg.StartTip + uint32(heights) // the last height of the run only: forks end there
		w.Stat("share_bound_final_block")
	}
	steps := (120 + r.Intn("steps", 5)*100) * max(n, 3) / 4
	if sh.StepsFactor > 0 {
		steps = steps * sh.StepsFactor / 100
	}
	for _, nd := range w.Nodes {
		if nd != nil {
			nd.MaxTx = 1 + r.Intn("maxtx", 4)
			if r.Intn("prefail", 6) == 0 {
				nd.FailPreBlock = 1 + r.Intn("prefailn", 2)
			}
			if r.Intn("blkfail", 8) == 0 {
				nd.FailBlock = 1
			}
			// transient errors of the node's own signer: building its pre-commit data or its block signature fails once
			// or twice (the callbacks return an error; the library logs it and tries again at the next occasion)
			if amev >= 0 && r.Intn("setdatafail", 8) == 0 {
				nd.FailSetData = 1 + r.Intn("setdatafailn", 2)
			}
			if r.Intn("signfail", 10) == 0 {
				nd.FailSign = 1 + r.Intn("signfailn", 2)
			}
		}
	}
	if r.Intn("dissenter", 6) == 0 {
		// one node's application refuses every block of a drawn height although the others accept it
		var cand []*sim.Node
		for _, nd := range w.Nodes {
			if nd != nil && nd.Active() {
				cand = append(cand, nd)
			}
		}
		if len(cand) > 0 {
			nd := cand[r.Intn("dissenterid", len(cand))]
			nd.RejectHeights = map[uint32]bool{startTip + 1 + uint32(r.Intn("dissentat", 2)): true}
			w.Stat("dissenting_application")
		}
	}
	ntx := r.Intn("inittx", 4)
	if sh.ManyTxs {
		ntx += 3
	}
	o := sim.AsyncOpts{Steps: steps, Heights: heights, NoRestart: sh.NoRestart, InitialTxs: ntx, ProfileOnly: sh.Profile, Avoid: sh.Avoid, Probes: sh.Probes, FlagFlips: sh.Watchers || sh.FlagFlips}
	w.Stat(fmt.Sprintf("N=%d", n))
	if len(byz) > 0 {
		w.Stat("has_byz")
	}
	if budget > 0 {
		w.Stat("has_restart_budget")
	}
	if amev >= 0 {
		w.Stat("amev")
	}
	if sh.ChangingSets {
		w.Stat("changing_sets")
		if len(byz) > 0 || budget > 0 {
			w.Stat("changing_sets_with_faults")
		}
	}
	sim.RunAsync(w, o)
	return w
}

// SafetyProp builds the rapid property for one monitor set.
func SafetyProp(e *Env, mk func() []*sim.Mon, sh Shape, nontrivial func(w *sim.World) bool) func(*rapid.T) {
	return func(t *rapid.T) {
		src := &RapidSrc{T: t}
		w := RunSafety(src, mk(), false, sh)
		fatal := e.Report(w, src.Rec, func() string {
			w2 := RunSafety(&ReplaySrc{Vals: src.Rec}, mk(), true, sh)
			return w2.Render()
		})
		e.Case(FPInts(src.Rec), nontrivial(w), w.Stats, func() any { return sampleOf(w, src.Rec) })
		if fatal != "" {
			t.Fatalf("%s", fatal)
		}
	}
}

func sampleOf(w *sim.World, rec []int) any {
	keys := w.StatKeys()
	cl := map[string]int{}
	for _, k := range keys {
		cl[k] = w.Stats[k]
	}
	tips := map[string]uint32{}
	for _, n := range w.Nodes {
		if n != nil {
			tips[fmt.Sprintf("node%d", n.ID)] = n.Tip
		}
	}
	return map[string]any{
		"config":        fmt.Sprintf("ids=%d validators=%s startTip=%d amev=%d tpb=%s byz=%v", w.Cfg.IDs, w.Cfg.ValDesc, w.Cfg.StartTip, w.Cfg.AMEVHeight, w.Cfg.TimePerBlock, w.Byz),
		"steps":         w.Step,
		"choices":       len(rec),
		"classes":       cl,
		"final_heights": tips,
	}
}
