package props

import (
	"testing"

	"github.com/nspcc-dev/dbft/verifharness/sim"
	"pgregory.net/rapid"
)

func runProp(t *testing.T, prop string, f func(e *Env) func(*rapid.T)) {
	SkipUnlessSelected(t, prop)
	e := GetEnv(prop)
	defer e.Flush()
	rapid.Check(t, f(e))
}

var (
	mkC01 = func() []*sim.Mon { return []*sim.Mon{sim.MonC01()} }
	mkC02 = func() []*sim.Mon { return []*sim.Mon{sim.MonC02()} }
	mkC03 = func() []*sim.Mon { return []*sim.Mon{sim.MonC03()} }
	mkC04 = func() []*sim.Mon { return []*sim.Mon{sim.MonC04()} }
	mkC03sig = func() []*sim.Mon { return []*sim.Mon{sim.MonC03Signatures()} }
	shC03sig = Shape{FlagFlips: true, ShareBound: 15, LockPressure: 30}
	mkC10 = func() []*sim.Mon { return []*sim.Mon{sim.MonC10()} }
	shC01 = Shape{EquivFocus: 35, LockPressure: 20, MaybeChanging: 14, ChangingFaults: 60, FlagFlips: true}
	shC02 = Shape{ShareBound: 25, EquivFocus: 20, MaybeChanging: 10, ChangingFaults: 70}
	shC03 = Shape{ShareBound: 15, MaybeChanging: 8, ChangingFaults: 70}
	shC04 = Shape{MaxN: 10, MaybeChanging: 12, ChangingFaults: 60}
	shC10 = Shape{MaybeChanging: 10, ChangingFaults: 60}
	mkC05 = func() []*sim.Mon { return []*sim.Mon{sim.MonC05()} }
	mkC07 = func() []*sim.Mon { return []*sim.Mon{sim.MonC07()} }
	shC05 = Shape{MaxHeights: 5, MaybeChanging: 40, StepsFactor: 150, ChangingFaults: 40}
	shC07 = Shape{MaybeChanging: 10, ChangingFaults: 60}
	mkC11 = func() []*sim.Mon { return nil }
	mkC12 = func() []*sim.Mon { return []*sim.Mon{sim.MonC12()} }
	mkC13 = func() []*sim.Mon { return []*sim.Mon{sim.MonC13()} }
	shC11 = Shape{Probes: 12, MaybeChanging: 15, ChangingFaults: 50}
	shC12 = Shape{ManyTxs: true, MaybeChanging: 10, ChangingFaults: 60}
	shC13 = Shape{Watchers: true, MaybeChanging: 15, ChangingFaults: 50}
)

func init() {
	regSafety("C01", mkC01, shC01)
	regSafety("C02", mkC02, shC02)
	regSafety("C03", mkC03, shC03)
	replayers["C03"] = append(replayers["C03"], func(vals []int, keepLog bool) *sim.World {
		return RunNestedRecovery(&ReplaySrc{Vals: vals}, mkC03(), keepLog)
	}, func(vals []int, keepLog bool) *sim.World {
		return RunNestedTx(&ReplaySrc{Vals: vals}, mkC03(), keepLog)
	})
	regSafety("C04", mkC04, shC04)
	replayers["C04"] = append(replayers["C04"], func(vals []int, keepLog bool) *sim.World {
		return RunNestedRecovery(&ReplaySrc{Vals: vals}, mkC04(), keepLog)
	})
	replayers["C03"] = append(replayers["C03"], func(vals []int, keepLog bool) *sim.World {
		solo := len(vals) > 0 && vals[0] == 1
		if len(vals) > 0 {
			vals = vals[1:] // the share draw
		}
		if solo {
			return RunSilencedCommitted(&ReplaySrc{Vals: vals}, mkC03sig(), keepLog)
		}
		return RunSafety(&ReplaySrc{Vals: vals}, mkC03sig(), keepLog, shC03sig)
	})
	replayers["C04"] = append(replayers["C04"], func(vals []int, keepLog bool) *sim.World {
		if len(vals) > 0 {
			vals = vals[1:] // the share draw
		}
		return RunRestartedSoloJudged(&ReplaySrc{Vals: vals}, mkC04(), keepLog)
	})
	regSafety("C10", mkC10, shC10)
	replayers["C10"] = append(replayers["C10"], func(vals []int, keepLog bool) *sim.World {
		if len(vals) == 0 {
			return RunViewStorm(&ReplaySrc{Vals: vals}, mkC10(), keepLog)
		}
		if vals[0] < 2 { // the first draw selects the generator (TestC10)
			return RunRestartedSolo(&ReplaySrc{Vals: vals[1:]}, mkC10(), keepLog)
		}
		return RunViewStorm(&ReplaySrc{Vals: vals[1:]}, mkC10(), keepLog)
	})
	regSafety("C05", mkC05, shC05)
	replayers["C05"] = append(replayers["C05"], func(vals []int, keepLog bool) *sim.World {
		return RunResetOverEarlyTraffic(&ReplaySrc{Vals: vals}, mkC05(), keepLog)
	})
	regSafety("C07", mkC07, shC07)
	replayers["C07"] = append(replayers["C07"], func(vals []int, keepLog bool) *sim.World {
		return RunWatchOnlySolo(&ReplaySrc{Vals: vals}, mkC07(), keepLog)
	})
	regSafety("C11", mkC11, shC11)
	replayers["C11"] = append(replayers["C11"], func(vals []int, keepLog bool) *sim.World {
		restarted := len(vals) > 0 && vals[0] == 1
		if len(vals) > 0 {
			vals = vals[1:] // the share draw
		}
		if restarted {
			return RunRestartedSolo(&ReplaySrc{Vals: vals}, mkC11(), keepLog)
		}
		return RunLargeCommittee(&ReplaySrc{Vals: vals}, mkC11(), keepLog)
	})
	regSafety("C12", mkC12, shC12)
	replayers["C12"] = append(replayers["C12"], func(vals []int, keepLog bool) *sim.World {
		return RunNestedTx(&ReplaySrc{Vals: vals}, mkC12(), keepLog)
	})
	regSafety("C13", mkC13, shC13)
	replayers["C13"] = append(replayers["C13"], func(vals []int, keepLog bool) *sim.World {
		return RunWatchOnlySolo(&ReplaySrc{Vals: vals}, mkC13(), keepLog)
	})
}

func TestC01(t *testing.T) {
	runProp(t, "C01", func(e *Env) func(*rapid.T) {
		return SafetyProp(e, mkC01, shC01, func(w *sim.World) bool {
			return w.Stats["c01_agree2"] > 0 && (w.Stats["view_changed"] > 0 || w.Stats["has_byz"] > 0 || w.Stats["restart"] > 0 || w.Stats["early_delivery"] > 0)
		})
	})
}

func TestC02(t *testing.T) {
	runProp(t, "C02", func(e *Env) func(*rapid.T) {
		return SafetyProp(e, mkC02, shC02, func(w *sim.World) bool {
			return w.Stats["accepted"] > 0 && (w.Stats["early_delivery"] > 0 || w.Stats["c02_invalid_held"] > 0)
		})
	})
}

func TestC03(t *testing.T) {
	SkipUnlessSelected(t, "C03")
	e := GetEnv("C03")
	defer e.Flush()
	rapid.Check(t, SafetyProp(e, mkC03, shC03, func(w *sim.World) bool {
		return w.Stats["c03_pressure_after_lock"] > 0
	}))
	if t.Failed() {
		return
	}
	// the nested view change inside OnTransaction / inside a timeout's recovery request (own message history)
	rapid.Check(t, func(t *rapid.T) {
		src := &RapidSrc{T: t}
		w := RunNestedTx(src, mkC03(), false)
		fatal := e.Report(w, src.Rec, func() string {
			return RunNestedTx(&ReplaySrc{Vals: src.Rec}, mkC03(), true).Render()
		})
		e.Case(FPInts(src.Rec), w.Stats["c12_nested_view_change"] > 0, w.Stats, func() any { return sampleOf(w, src.Rec) })
		if fatal != "" {
			t.Fatalf("%s", fatal)
		}
	})
	if t.Failed() {
		return
	}
	// recovery messages full of change views processed while future-view traffic is cached
	rapid.Check(t, func(t *rapid.T) {
		src := &RapidSrc{T: t}
		w := RunNestedRecovery(src, mkC03(), false)
		fatal := e.Report(w, src.Rec, func() string {
			return RunNestedRecovery(&ReplaySrc{Vals: src.Rec}, mkC03(), true).Render()
		})
		e.Case(FPInts(src.Rec), w.Stats["nested_recovery_locked"] > 0 && w.Stats["nested_recovery_view_changed"] > 0, w.Stats, func() any { return sampleOf(w, src.Rec) })
		if fatal != "" {
			t.Fatalf("%s", fatal)
		}
	})
	if t.Failed() {
		return
	}
	// never two different commits / pre-commits at one height - also when the operator sets and clears a node's
	// watch-only flag or withdraws its key in the middle of a height (a third of one more budget)
	rapid.Check(t, func(t *rapid.T) {
		src := &RapidSrc{T: t}
		gen := func(r sim.Src, keep bool) *sim.World { return RunSafety(r, mkC03sig(), keep, shC03sig) }
		switch src.Intn("flipshare", 3) {
		case 0:
		case 1:
			// the same situation by construction (driver B): a committed node is silenced, follows a view change, is re-enabled
			gen = func(r sim.Src, keep bool) *sim.World { return RunSilencedCommitted(r, mkC03sig(), keep) }
		default:
			return
		}
		w := gen(src, false)
		fatal := e.Report(w, src.Rec, func() string {
			return gen(&ReplaySrc{Vals: src.Rec[1:]}, true).Render()
		})
		e.Case(FPInts(src.Rec), (w.Stats["c03_commitment_repeated_identically"] > 0 && (w.Stats["watch_flag_set_mid_view"] > 0 || w.Stats["watch_flag_cleared_mid_view"] > 0)) || w.Stats["silenced_node_followed_view_change"] > 0, w.Stats, func() any { return sampleOf(w, src.Rec) })
		if fatal != "" {
			t.Fatalf("%s", fatal)
		}
	})
}

func TestC04(t *testing.T) {
	SkipUnlessSelected(t, "C04")
	e := GetEnv("C04")
	defer e.Flush()
	rapid.Check(t, SafetyProp(e, mkC04, shC04, func(w *sim.World) bool {
		return (w.Stats["c04_commit_checked"] > 0 || w.Stats["c04_viewchange_checked"] > 0) && (w.Stats["early_delivery"] > 0 || w.Stats["c04_commit_with_mismatching_prep_present"] > 0)
	}))
	if t.Failed() {
		return
	}
	// recovery messages full of change views processed while future-view traffic is cached
	rapid.Check(t, func(t *rapid.T) {
		src := &RapidSrc{T: t}
		w := RunNestedRecovery(src, mkC04(), false)
		fatal := e.Report(w, src.Rec, func() string {
			return RunNestedRecovery(&ReplaySrc{Vals: src.Rec}, mkC04(), true).Render()
		})
		e.Case(FPInts(src.Rec), w.Stats["nested_recovery_view_changed"] > 0 && w.Stats["c04_viewchange_checked"] > 0, w.Stats, func() any { return sampleOf(w, src.Rec) })
		if fatal != "" {
			t.Fatalf("%s", fatal)
		}
	})
	if t.Failed() {
		return
	}
	// a validator restarted with empty state is handed back its own earlier messages: whatever it says in this life
	// needs its evidence among what this instance was handed (half of one more budget)
	rapid.Check(t, func(t *rapid.T) {
		src := &RapidSrc{T: t}
		if src.Intn("restartedshare", 2) != 0 {
			return
		}
		w := RunRestartedSoloJudged(src, mkC04(), false)
		fatal := e.Report(w, src.Rec, func() string {
			return RunRestartedSoloJudged(&ReplaySrc{Vals: src.Rec[1:]}, mkC04(), true).Render()
		})
		e.Case(FPInts(src.Rec), w.Stats["c04_commit_checked"] > 0, w.Stats, func() any { return sampleOf(w, src.Rec) })
		if fatal != "" {
			t.Fatalf("%s", fatal)
		}
	})
}

func TestC10(t *testing.T) {
	SkipUnlessSelected(t, "C10")
	e := GetEnv("C10")
	defer e.Flush()
	rapid.Check(t, SafetyProp(e, mkC10, shC10, func(w *sim.World) bool {
		return w.Stats["c10_timeout_consumed"] > 0 || w.Stats["c10_view_changed"] > 0
	}))
	if t.Failed() {
		return
	}
	// view storms: one node driven through dozens of views, the clock jumping to every deadline
	rapid.Check(t, func(t *rapid.T) {
		src := &RapidSrc{T: t}
		gen := RunViewStorm
		if src.Intn("c10gen", 5) < 2 {
			gen = RunRestartedSolo // a validator restarted with empty state whose peers relay its own earlier messages
		}
		w := gen(src, mkC10(), false)
		fatal := e.Report(w, src.Rec, func() string {
			return gen(&ReplaySrc{Vals: src.Rec[1:]}, mkC10(), true).Render()
		})
		e.Case(FPInts(src.Rec), w.Stats["c10_view_changed"] > 0, w.Stats, func() any { return sampleOf(w, src.Rec) })
		if fatal != "" {
			t.Fatalf("%s", fatal)
		}
	})
}

func TestC05(t *testing.T) {
	SkipUnlessSelected(t, "C05")
	e := GetEnv("C05")
	defer e.Flush()
	rapid.Check(t, SafetyProp(e, mkC05, shC05, func(w *sim.World) bool {
		return w.Stats["c05_reinit_checked"] > 0 && (w.Stats["c05_skipped_heights"] > 0 || w.Stats["changing_sets"] > 0 || w.Stats["c05_early_traffic"] > 0 || w.Stats["c05_call_after_decision"] > 0)
	}))
	if t.Failed() {
		return
	}
	// Reset over change views received early for a height the node reaches through the ledger: the view is entered
	// inside Reset (driver B; a case costs a fraction of a millisecond)
	rapid.Check(t, func(t *rapid.T) {
		src := &RapidSrc{T: t}
		w := RunResetOverEarlyTraffic(src, mkC05(), false)
		fatal := e.Report(w, src.Rec, func() string {
			return RunResetOverEarlyTraffic(&ReplaySrc{Vals: src.Rec}, mkC05(), true).Render()
		})
		e.Case(FPInts(src.Rec), w.Stats["view_entered_inside_reset"] > 0, w.Stats, func() any { return sampleOf(w, src.Rec) })
		if fatal != "" {
			t.Fatalf("%s", fatal)
		}
	})
}

func TestC07(t *testing.T) {
	SkipUnlessSelected(t, "C07")
	e := GetEnv("C07")
	defer e.Flush()
	rapid.Check(t, SafetyProp(e, mkC07, shC07, func(w *sim.World) bool {
		return (w.Stats["c07_commit_checked"] > 0 && (w.Stats["early_delivery"] > 0 || w.Stats["c07_preblock_failed"] > 0)) || w.Stats["c07_precommit_while_off"] > 0
	}))
	if t.Failed() {
		return
	}
	// "... and watch-only observers": the flagged validator whose peers relay its own earlier pre-commit / commit
	rapid.Check(t, func(t *rapid.T) {
		src := &RapidSrc{T: t}
		w := RunWatchOnlySolo(src, mkC07(), false)
		fatal := e.Report(w, src.Rec, func() string {
			return RunWatchOnlySolo(&ReplaySrc{Vals: src.Rec}, mkC07(), true).Render()
		})
		e.Case(FPInts(src.Rec), w.Stats["c13_own_proposal_around"] > 0 && w.Stats["amev"] > 0, w.Stats, func() any { return sampleOf(w, src.Rec) })
		if fatal != "" {
			t.Fatalf("%s", fatal)
		}
	})
}

func TestC11(t *testing.T) {
	SkipUnlessSelected(t, "C11")
	e := GetEnv("C11")
	defer e.Flush()
	rapid.Check(t, SafetyProp(e, mkC11, shC11, func(w *sim.World) bool {
		return w.Stats["c11_probe_nontrivial"] > 0
	}))
	if t.Failed() {
		return
	}
	// no panic, whatever the size of the committee: 24..200 validators, the node the speaker of every height
	rapid.Check(t, func(t *rapid.T) {
		src := &RapidSrc{T: t}
		gen := RunLargeCommittee
		switch src.Intn("largeshare", 3) { // a third of the budget is plenty for the large committees (a case costs milliseconds)
		case 0:
		case 1:
			// ... and whatever a validator restarted with empty state is handed back of its own past (its own proposal,
			// responses, change views and commits, directly or inside recovery messages, in any order)
			gen = RunRestartedSolo
		default:
			return
		}
		w := gen(src, mkC11(), false)
		fatal := e.Report(w, src.Rec, func() string {
			return gen(&ReplaySrc{Vals: src.Rec[1:]}, mkC11(), true).Render()
		})
		e.Case(FPInts(src.Rec), w.Stats["large_response"] > 70 || w.Stats["restarted_primary_times_out_with_own_old_commit"] > 0, w.Stats, func() any { return sampleOf(w, src.Rec) })
		if fatal != "" {
			t.Fatalf("%s", fatal)
		}
	})
}

func TestC12(t *testing.T) {
	SkipUnlessSelected(t, "C12")
	e := GetEnv("C12")
	defer e.Flush()
	rapid.Check(t, SafetyProp(e, mkC12, shC12, func(w *sim.World) bool {
		return w.Stats["c12_nontrivial"] > 0
	}))
	if t.Failed() {
		return
	}
	// the nested case: completing a proposal changes the view and starts a cached proposal inside the call
	rapid.Check(t, func(t *rapid.T) {
		src := &RapidSrc{T: t}
		w := RunNestedTx(src, mkC12(), false)
		fatal := e.Report(w, src.Rec, func() string {
			return RunNestedTx(&ReplaySrc{Vals: src.Rec}, mkC12(), true).Render()
		})
		e.Case(FPInts(src.Rec), w.Stats["c12_nested_view_change"] > 0 && w.Stats["c12_obligation_checked"] > 0, w.Stats, func() any { return sampleOf(w, src.Rec) })
		if fatal != "" {
			t.Fatalf("%s", fatal)
		}
	})
}

func TestC13(t *testing.T) {
	SkipUnlessSelected(t, "C13")
	e := GetEnv("C13")
	defer e.Flush()
	// silence in every state the adversarial driver reaches ...
	rapid.Check(t, SafetyProp(e, mkC13, shC13, func(w *sim.World) bool {
		return w.Stats["c13_watch_is_primary"] > 0
	}))
	if t.Failed() {
		return
	}
	// ... and the validators around a flagged validator progress as if it were a silent one
	rapid.Check(t, TimedProp(e, mkC13t, shC13t, func(w *sim.World) bool {
		return w.Stats["c13_watch_is_primary"] > 0 && w.TimedRes != nil && w.TimedRes.Done
	}))
	if t.Failed() {
		return
	}
	// ... and a flagged validator with a past: its peers relay what its index sent before the flag was set
	rapid.Check(t, func(t *rapid.T) {
		src := &RapidSrc{T: t}
		w := RunWatchOnlySolo(src, mkC13(), false)
		fatal := e.Report(w, src.Rec, func() string {
			return RunWatchOnlySolo(&ReplaySrc{Vals: src.Rec}, mkC13(), true).Render()
		})
		e.Case(FPInts(src.Rec), w.Stats["c13_watch_is_primary"] > 0 && w.Stats["c13_own_request_delivered"] > 0, w.Stats, func() any { return sampleOf(w, src.Rec) })
		if fatal != "" {
			t.Fatalf("%s", fatal)
		}
	})
}
