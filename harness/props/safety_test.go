package props

import (
	"testing"

	"github.com/nspcc-dev/dbft/verifharness/sim"
	"pgregory.net/rapid"
)

func runProp(t *testing.T, prop string, f func(e *Env) func(*rapid.T)) {
	SkipUnlessSelected(t, prop)
	e := GetEnv(prop)
	defer e.Flush()
	rapid.Check(t, f(e))
}

var (
	mkC01 = func() []*sim.Mon { return []*sim.Mon{sim.MonC01()} }
	mkC02 = func() []*sim.Mon { return []*sim.Mon{sim.MonC02()} }
	mkC03 = func() []*sim.Mon { return []*sim.Mon{sim.MonC03()} }
	mkC04 = func() []*sim.Mon { return []*sim.Mon{sim.MonC04()} }
	mkC10 = func() []*sim.Mon { return []*sim.Mon{sim.MonC10()} }
	shC01 = Shape{}
	shC02 = Shape{}
	shC03 = Shape{}
	shC04 = Shape{MaxN: 10}
	shC10 = Shape{}
)

func init() {
	regSafety("C01", mkC01, shC01)
	regSafety("C02", mkC02, shC02)
	regSafety("C03", mkC03, shC03)
	regSafety("C04", mkC04, shC04)
	regSafety("C10", mkC10, shC10)
}

func TestC01(t *testing.T) {
	runProp(t, "C01", func(e *Env) func(*rapid.T) {
		return SafetyProp(e, mkC01, shC01, func(w *sim.World) bool {
			return w.Stats["c01_agree2"] > 0 && (w.Stats["view_changed"] > 0 || w.Stats["has_byz"] > 0 || w.Stats["restart"] > 0 || w.Stats["early_delivery"] > 0)
		})
	})
}

func TestC02(t *testing.T) {
	runProp(t, "C02", func(e *Env) func(*rapid.T) {
		return SafetyProp(e, mkC02, shC02, func(w *sim.World) bool {
			return w.Stats["accepted"] > 0 && (w.Stats["early_delivery"] > 0 || w.Stats["c02_invalid_held"] > 0)
		})
	})
}

func TestC03(t *testing.T) {
	runProp(t, "C03", func(e *Env) func(*rapid.T) {
		return SafetyProp(e, mkC03, shC03, func(w *sim.World) bool {
			return w.Stats["c03_pressure_after_lock"] > 0
		})
	})
}

func TestC04(t *testing.T) {
	runProp(t, "C04", func(e *Env) func(*rapid.T) {
		return SafetyProp(e, mkC04, shC04, func(w *sim.World) bool {
			return (w.Stats["c04_commit_checked"] > 0 || w.Stats["c04_viewchange_checked"] > 0) && (w.Stats["early_delivery"] > 0 || w.Stats["c04_commit_with_mismatching_prep_present"] > 0)
		})
	})
}

func TestC10(t *testing.T) {
	runProp(t, "C10", func(e *Env) func(*rapid.T) {
		return SafetyProp(e, mkC10, shC10, func(w *sim.World) bool {
			return w.Stats["c10_timeout_consumed"] > 0 || w.Stats["c10_view_changed"] > 0
		})
	})
}
