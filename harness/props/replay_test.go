package props

import (
	"fmt"
	"os"
	"testing"
)

// TestReplay re-executes VERIF_REPLAY (a trace written by a failing run).
// The library replays cached messages in Go map order, so a schedule that
// had two or more cached messages of one class may need several attempts.
func TestReplay(t *testing.T) {
	path := os.Getenv("VERIF_REPLAY")
	if path == "" {
		t.Skip("VERIF_REPLAY not set")
	}
	prop, key, vals, err := ParseStream(path)
	if err != nil {
		t.Fatalf("cannot parse %s: %v", path, err)
	}
	if p := os.Getenv("VERIF_PROP"); p != "" && p != prop {
		t.Fatalf("trace is for %s, not %s", prop, p)
	}
	if Regress != "" {
		sc, ok := scenarios[Regress]
		if !ok {
			t.Fatalf("unknown regression scenario %q", Regress)
		}
		w := sc.Run(true)
		for _, v := range w.Viols {
			if v.Prop == sc.Prop {
				fmt.Printf("REPLAY-VIOLATION property=%s key=%s scenario=%s: %s\n", v.Prop, v.Key, Regress, v.Msg)
				fmt.Println(w.Render())
				return
			}
		}
		fmt.Printf("REPLAY-OK property=%s scenario=%s\n", prop, Regress)
		return
	}
	fs := replayers[prop]
	if len(fs) == 0 {
		t.Fatalf("no replayer for %s", prop)
	}
	for attempt := 1; attempt <= 64; attempt++ {
		for _, f := range fs {
			w := f(vals, true)
			for _, v := range w.Viols {
				if v.Prop == prop && (key == "" || v.Key == key) {
					fmt.Printf("REPLAY-VIOLATION property=%s key=%s attempt=%d: %s\n", v.Prop, v.Key, attempt, v.Msg)
					if os.Getenv("VERIF_REPLAY_VERBOSE") != "" {
						fmt.Println(w.Render())
					}
					return
				}
			}
		}
	}
	fmt.Printf("REPLAY-OK property=%s key=%s: not reproduced in 64 attempts\n", prop, key)
}
