package props

import (
	"testing"

	"github.com/nspcc-dev/dbft/verifharness/sim"
	"pgregory.net/rapid"
)

var (
	mkC08  = func() []*sim.Mon { return []*sim.Mon{sim.MonC08()} }
	mkC09  = func() []*sim.Mon { return nil } // MonProgress is added by the generator (it needs the drawn bound)
	mkC16  = func() []*sim.Mon { return []*sim.Mon{sim.MonC16()} }
	mkC13t = func() []*sim.Mon { return []*sim.Mon{sim.MonC13()} }
	shC08  = TimedShape{Kind: "c08"}
	shC09  = TimedShape{Kind: "c09", MaxN: 10}
	shC16  = TimedShape{Kind: "c16"}
	shC13t = TimedShape{Kind: "c13"}
)

func init() {
	regTimed("C08", mkC08, shC08)
	regTimed("C08", mkC08, shC16)
	regTimed("C09", mkC09, shC09)
	regTimed("C16", mkC16, shC16)
	regTimed("C13", mkC13t, shC13t)
}

func TestC08(t *testing.T) {
	SkipUnlessSelected(t, "C08")
	e := GetEnv("C08")
	defer e.Flush()
	rapid.Check(t, TimedProp(e, mkC08, shC08, func(w *sim.World) bool {
		return w.Stats["early_delivery"] > 0 && w.Stats["dup"] > 0 && w.TimedRes != nil && w.TimedRes.Done
	}))
	if t.Failed() {
		return
	}
	// ... and on an idle chain with the maximum-block-time extension: transactions appear rarely and reach the pools
	// one by one, so proposals, notifications and requested transactions arrive in every order (the worlds of C16)
	rapid.Check(t, TimedProp(e, mkC08, shC16, func(w *sim.World) bool {
		return w.Stats["notified_backup_holds_proposal"]+w.Stats["tx_arrival_wanted"] > 0 && w.TimedRes != nil && w.TimedRes.Done
	}))
}

func TestC09(t *testing.T) {
	runProp(t, "C09", func(e *Env) func(*rapid.T) {
		return TimedProp(e, mkC09, shC09, func(w *sim.World) bool {
			return w.TimedRes != nil && w.TimedRes.Done && (w.Stats["decided_in_higher_view"] > 0 || w.Stats["sync"] > 0 || w.Stats["restart"] > 0)
		})
	})
}

func TestC16(t *testing.T) {
	runProp(t, "C16", func(e *Env) func(*rapid.T) {
		return TimedProp(e, mkC16, shC16, func(w *sim.World) bool {
			return w.Stats["c16_extended_wait"] > 0
		})
	})
}
