package props

import (
	"bytes"
	"crypto/rand"
	"encoding/binary"
	"fmt"
	"testing"

	"github.com/nspcc-dev/dbft"
	"github.com/nspcc-dev/dbft/internal/consensus"
	"github.com/nspcc-dev/dbft/internal/crypto"
	"github.com/nspcc-dev/dbft/internal/merkle"
	"pgregory.net/rapid"
)

type u256 = crypto.Uint256
type refPayload = dbft.ConsensusPayload[u256]

const sec = uint64(1_000_000_000)

// ---- generators --------------------------------------------------------------------

func genHash() *rapid.Generator[u256] {
	return rapid.Custom(func(t *rapid.T) u256 {
		var h u256
		b := rapid.SliceOfN(rapid.Byte(), 4, 4).Draw(t, "hb")
		copy(h[:], b)
		if rapid.Bool().Draw(t, "tail") {
			h[31] = b[0]
		}
		return h
	})
}

func genHashes(max int) *rapid.Generator[[]u256] {
	return rapid.SliceOfNDistinct(genHash(), 0, max, func(h u256) u256 { return h })
}

// desc is a structural description of a payload from which it can be rebuilt field by field.
type desc struct {
	T      dbft.MessageType
	Height uint32
	View   byte
	Idx    uint16
	// bodies
	Ts     uint64 // seconds
	Nonce  uint64
	Hashes []u256
	Prep   u256
	Sig    [64]byte
	AMEV   bool    // commit built through NewAMEVCommit
	Data   [4]byte // pre-commit
	Emb    []desc  // recovery message: embedded payloads
	PHash  *u256   // recovery message constructed with a preparation hash
}

func (d desc) body() any {
	switch d.T {
	case dbft.PrepareRequestType:
		return consensus.NewPrepareRequest(d.Ts*sec, d.Nonce, d.Hashes)
	case dbft.PrepareResponseType:
		return consensus.NewPrepareResponse(d.Prep)
	case dbft.ChangeViewType:
		return consensus.NewChangeView(d.View+1, dbft.CVTimeout, d.Ts*sec)
	case dbft.CommitType:
		if d.AMEV {
			return consensus.NewAMEVCommit(d.Sig[:])
		}
		return consensus.NewCommit(d.Sig[:])
	case dbft.PreCommitType:
		return consensus.NewPreCommit(d.Data[:])
	case dbft.RecoveryRequestType:
		return consensus.NewRecoveryRequest(d.Ts * sec)
	default:
		rm := consensus.NewRecoveryMessage(d.PHash)
		for _, e := range d.Emb {
			rm.AddPayload(e.build())
		}
		return rm
	}
}

func (d desc) build() refPayload {
	return consensus.NewConsensusPayload(d.T, d.Height, d.Idx, d.View, d.body())
}

var simpleTypes = []dbft.MessageType{dbft.PrepareRequestType, dbft.PrepareResponseType, dbft.ChangeViewType, dbft.CommitType, dbft.PreCommitType, dbft.RecoveryRequestType}

func genDesc(allowRecovery bool) *rapid.Generator[desc] {
	return rapid.Custom(func(t *rapid.T) desc {
		var d desc
		types := simpleTypes
		if allowRecovery {
			types = append(append([]dbft.MessageType{}, simpleTypes...), dbft.RecoveryMessageType, dbft.RecoveryMessageType)
		}
		d.T = rapid.SampledFrom(types).Draw(t, "type")
		d.Height = rapid.Uint32().Draw(t, "height")
		d.View = byte(rapid.IntRange(0, 254).Draw(t, "view"))
		d.Idx = rapid.Uint16().Draw(t, "idx")
		d.Ts = uint64(rapid.Uint32().Draw(t, "ts"))
		d.Nonce = rapid.Uint64().Draw(t, "nonce")
		switch d.T {
		case dbft.PrepareRequestType:
			d.Hashes = genHashes(64).Draw(t, "hashes")
		case dbft.PrepareResponseType:
			d.Prep = genHash().Draw(t, "prep")
		case dbft.CommitType:
			copy(d.Sig[:], rapid.SliceOfN(rapid.Byte(), 64, 64).Draw(t, "sig"))
			d.AMEV = rapid.Bool().Draw(t, "amev")
		case dbft.PreCommitType:
			copy(d.Data[:], rapid.SliceOfN(rapid.Byte(), 4, 4).Draw(t, "data"))
		case dbft.RecoveryMessageType:
			n := rapid.IntRange(0, 8).Draw(t, "nemb")
			withReq := rapid.Bool().Draw(t, "withreq")
			primary := rapid.Uint16Range(0, 20).Draw(t, "primary")
			var reqHash *u256
			if withReq {
				r := desc{T: dbft.PrepareRequestType, Height: d.Height, View: d.View, Idx: primary, Ts: uint64(rapid.Uint32().Draw(t, "rts")), Nonce: rapid.Uint64().Draw(t, "rnonce"), Hashes: genHashes(8).Draw(t, "rhashes")}
				d.Emb = append(d.Emb, r)
				h := r.build().Hash()
				reqHash = &h
			} else if rapid.Bool().Draw(t, "withprephash") {
				h := genHash().Draw(t, "phash")
				d.PHash = &h
				reqHash = &h
			}
			used := map[string]bool{}
			for i := 0; i < n; i++ {
				e := desc{Height: d.Height, Idx: rapid.Uint16Range(0, 20).Draw(t, "eidx")}
				e.T = rapid.SampledFrom([]dbft.MessageType{dbft.PrepareResponseType, dbft.ChangeViewType, dbft.CommitType, dbft.PreCommitType}).Draw(t, "etype")
				k := fmt.Sprintf("%d/%d", e.T, e.Idx)
				if used[k] {
					continue
				}
				used[k] = true
				switch e.T {
				case dbft.PrepareResponseType:
					if reqHash == nil {
						continue // responses are only ever packed next to the proposal they name
					}
					e.View, e.Prep = d.View, *reqHash
				case dbft.ChangeViewType:
					e.View = byte(rapid.IntRange(0, 254).Draw(t, "eview"))
					e.Ts = 0 // the compact form does not carry the timestamp
				case dbft.CommitType:
					e.View = byte(rapid.IntRange(0, 254).Draw(t, "eview"))
					copy(e.Sig[:], rapid.SliceOfN(rapid.Byte(), 64, 64).Draw(t, "esig"))
				case dbft.PreCommitType:
					e.View = byte(rapid.IntRange(0, 254).Draw(t, "eview"))
					copy(e.Data[:], rapid.SliceOfN(rapid.Byte(), 4, 4).Draw(t, "edata"))
				}
				d.Emb = append(d.Emb, e)
			}
		}
		return d
	})
}

// mutations of a description that change exactly one consensus-relevant field
func mutate(t *rapid.T, d desc) (desc, string) {
	m := d
	m.Hashes = append([]u256(nil), d.Hashes...)
	m.Emb = append([]desc(nil), d.Emb...)
	opts := []string{"height", "view", "idx"}
	switch d.T {
	case dbft.PrepareRequestType:
		opts = append(opts, "ts", "nonce", "addhash")
		if len(d.Hashes) > 0 {
			opts = append(opts, "onehash")
		}
		if len(d.Hashes) > 1 {
			opts = append(opts, "swap")
		}
	case dbft.PrepareResponseType:
		opts = append(opts, "prep")
	case dbft.ChangeViewType, dbft.RecoveryRequestType:
		opts = append(opts, "ts")
	case dbft.CommitType:
		opts = append(opts, "sig")
	case dbft.PreCommitType:
		opts = append(opts, "data")
	case dbft.RecoveryMessageType:
		opts = []string{"height", "idx", "emb-add-commit", "emb-add-precommit", "emb-add-cv"}
		for _, e := range d.Emb {
			if e.T == dbft.PrepareRequestType {
				opts = append(opts, "emb-req-nonce")
			}
			if e.T == dbft.PreCommitType {
				opts = append(opts, "emb-precommit-data")
			}
			if e.T == dbft.CommitType {
				opts = append(opts, "emb-commit-sig")
			}
		}
	}
	o := rapid.SampledFrom(opts).Draw(t, "mutation")
	switch o {
	case "height":
		m.Height ^= 1 << uint(rapid.IntRange(0, 31).Draw(t, "bit"))
		for i := range m.Emb {
			m.Emb[i].Height = m.Height
		}
	case "view":
		m.View = byte((int(d.View) + 1 + rapid.IntRange(0, 200).Draw(t, "dv")) % 255)
		if m.View == d.View {
			m.View = (d.View + 1) % 255
		}
	case "idx":
		m.Idx ^= 1 << uint(rapid.IntRange(0, 15).Draw(t, "bit"))
	case "ts":
		m.Ts = (d.Ts + 1 + uint64(rapid.IntRange(0, 1000).Draw(t, "dts"))) & 0xffffffff
		if m.Ts == d.Ts {
			m.Ts = d.Ts - 1
		}
	case "nonce":
		m.Nonce ^= 1 << uint(rapid.IntRange(0, 63).Draw(t, "bit"))
	case "addhash":
		var h u256
		binary.LittleEndian.PutUint64(h[8:], 0xfeedface)
		m.Hashes = append(m.Hashes, h)
	case "onehash":
		i := rapid.IntRange(0, len(d.Hashes)-1).Draw(t, "hi")
		m.Hashes[i][7] ^= 0x40
	case "swap":
		i := rapid.IntRange(0, len(d.Hashes)-2).Draw(t, "hi")
		m.Hashes[i], m.Hashes[i+1] = m.Hashes[i+1], m.Hashes[i]
	case "prep":
		m.Prep[rapid.IntRange(0, 31).Draw(t, "pb")] ^= 1
	case "sig":
		m.Sig[rapid.IntRange(0, 63).Draw(t, "sb")] ^= 1
	case "data":
		m.Data[rapid.IntRange(0, 3).Draw(t, "db")] ^= 1
	case "emb-add-commit":
		e := desc{T: dbft.CommitType, Height: d.Height, Idx: 99, View: 1}
		e.Sig[5] = 7
		m.Emb = append(m.Emb, e)
	case "emb-add-precommit":
		e := desc{T: dbft.PreCommitType, Height: d.Height, Idx: 98, View: 1}
		e.Data[1] = 7
		m.Emb = append(m.Emb, e)
	case "emb-add-cv":
		m.Emb = append(m.Emb, desc{T: dbft.ChangeViewType, Height: d.Height, Idx: 97, View: 2})
	case "emb-req-nonce", "emb-precommit-data", "emb-commit-sig":
		for i, e := range m.Emb {
			switch {
			case o == "emb-req-nonce" && e.T == dbft.PrepareRequestType:
				m.Emb[i].Nonce ^= 0x10
			case o == "emb-precommit-data" && e.T == dbft.PreCommitType:
				m.Emb[i].Data[0] ^= 1
			case o == "emb-commit-sig" && e.T == dbft.CommitType:
				m.Emb[i].Sig[0] ^= 1
			default:
				continue
			}
			break
		}
	}
	return m, o
}

// observable renders what the library can read from a payload.
func observable(p refPayload, primary uint16) string {
	var sb bytes.Buffer
	fmt.Fprintf(&sb, "%s h=%d v=%d i=%d ", p.Type(), p.Height(), p.ViewNumber(), p.ValidatorIndex())
	switch p.Type() {
	case dbft.PrepareRequestType:
		r := p.GetPrepareRequest()
		fmt.Fprintf(&sb, "ts=%d nonce=%d hashes=%v", r.Timestamp(), r.Nonce(), r.TransactionHashes())
	case dbft.PrepareResponseType:
		fmt.Fprintf(&sb, "prep=%s", p.GetPrepareResponse().PreparationHash())
	case dbft.ChangeViewType:
		fmt.Fprintf(&sb, "nv=%d", p.GetChangeView().NewViewNumber())
	case dbft.CommitType:
		fmt.Fprintf(&sb, "sig=%x", p.GetCommit().Signature())
	case dbft.PreCommitType:
		fmt.Fprintf(&sb, "data=%x", p.GetPreCommit().Data())
	case dbft.RecoveryRequestType:
		fmt.Fprintf(&sb, "ts=%d", p.GetRecoveryRequest().Timestamp())
	case dbft.RecoveryMessageType:
		rm := p.GetRecoveryMessage()
		// same order as the library: the proposal first, then responses, change views, pre-commits, commits
		if req := rm.GetPrepareRequest(p, nil, primary); req != nil {
			fmt.Fprintf(&sb, "req{%s #%s} ", observable(req, primary), req.Hash())
		}
		if ph := rm.PreparationHash(); ph != nil {
			fmt.Fprintf(&sb, "prephash=%s ", *ph)
		}
		for _, x := range rm.GetPrepareResponses(p, nil) {
			fmt.Fprintf(&sb, "resp{%s} ", observable(x, primary))
		}
		for _, x := range rm.GetChangeViews(p, nil) {
			fmt.Fprintf(&sb, "cv{%s} ", observable(x, primary))
		}
		for _, x := range rm.GetPreCommits(p, nil) {
			fmt.Fprintf(&sb, "pc{%s} ", observable(x, primary))
		}
		for _, x := range rm.GetCommits(p, nil) {
			fmt.Fprintf(&sb, "cm{%s} ", observable(x, primary))
		}
	}
	return sb.String()
}

func primaryOf(d desc) uint16 {
	for _, e := range d.Emb {
		if e.T == dbft.PrepareRequestType {
			return e.Idx
		}
	}
	return 0
}

func c19Payload(e *Env) func(*rapid.T) {
	return func(t *rapid.T) {
		d := genDesc(true).Draw(t, "payload")
		p1, p2 := d.build(), d.build()
		cl := map[string]int{"payload_" + d.T.String(): 1}
		viol := func(key, msg string) {
			e.Violation(key, msg, fmt.Sprintf("desc=%+v", d))
			t.Fatalf("%s: %s", key, msg)
		}
		// hash is a function of content
		if p1.Hash() != p2.Hash() {
			viol("hash-not-function-of-content", "two payloads built from the same fields have different hashes")
		}
		// any single-field change changes the hash
		md, what := mutate(t, d)
		if md.build().Hash() == p1.Hash() {
			key := "hash-ignores-field"
			if what == "emb-add-precommit" || what == "emb-precommit-data" {
				key = "D7-recovery-hash-ignores-precommits"
			}
			viol(key, fmt.Sprintf("changing %q of a %s payload does not change its hash", what, d.T))
		}
		cl["mutation_"+what] = 1
		// ... also when the field is changed in place after the hash was taken once (the library sets the
		// validator index of a payload it has built, the application may have hashed it before)
		di := d
		di.Idx ^= 1
		p2.SetValidatorIndex(di.Idx)
		if p2.Hash() != di.build().Hash() {
			viol("hash-stale-after-set-index", fmt.Sprintf("a %s payload hashed once keeps that hash after SetValidatorIndex: the hash is not a function of the content", d.T))
		}
		// round trip
		enc := p1.(*consensus.Payload).MarshalUnsigned()
		enc0 := bytes.Clone(enc) // what the encoder returned, as a queue or a signer would keep it
		dec := new(consensus.Payload)
		// (the decoder must fail cleanly on whatever it does not accept - its own encoder's pre-commits included - so the
		// call runs under panic capture; seeded change C19n)
		var err error
		if pm := func() (pm string) {
			defer func() {
				if r := recover(); r != nil {
					pm = fmt.Sprint(r)
				}
			}()
			err = dec.UnmarshalUnsigned(enc)
			return ""
		}(); pm != "" {
			viol("decoder-panics", fmt.Sprintf("decoding the encoding of a %s payload (type byte %#x) panics: %s", d.T, byte(d.T), pm))
		}
		if err != nil {
			cl["decoder_rejects_"+d.T.String()] = 1
			// pre-commit and anti-MEV commit bodies are not decodable by the reference decoder: a clean rejection
			if d.T != dbft.PreCommitType && !(d.T == dbft.CommitType && d.AMEV) {
				viol("decoder-rejects-own-encoding", fmt.Sprintf("decoder rejects the encoding of a %s payload: %v", d.T, err))
			}
		} else {
			prim := primaryOf(d)
			o1, o2 := observable(p1, prim), observable(dec, prim)
			if o1 != o2 {
				key := "roundtrip-differs"
				if d.T == dbft.RecoveryMessageType {
					key = "D7-recovery-roundtrip-differs"
				}
				viol(key, fmt.Sprintf("decode(encode(p)) differs from p:\n before: %s\n after:  %s", o1, o2))
			}
			if dec.Hash() != p1.Hash() {
				viol("roundtrip-hash-differs", "decode(encode(p)) has another hash than p")
			}
			cl["roundtrip_ok"] = 1
			// decoding into a payload object that was used (and hashed) before gives the decoded content's hash
			mp := md.build()
			again := new(consensus.Payload)
			if again.UnmarshalUnsigned(enc) == nil {
				_ = again.Hash()
				if again.UnmarshalUnsigned(mp.(*consensus.Payload).MarshalUnsigned()) == nil && again.Hash() != mp.Hash() {
					viol("hash-stale-after-decode", "a payload object decoded a second time keeps the hash of the first content")
				}
			}
		}
		// the encoding handed out earlier is still the encoding of p1 after other payloads have been hashed and encoded
		// (the mutant, the decoded copy): bytes that alias encoder state are not an encoding of anything for long
		_ = md.build().(*consensus.Payload).MarshalUnsigned()
		_ = md.build().Hash()
		if !bytes.Equal(enc, enc0) {
			viol("encoding-overwritten-by-later-use", fmt.Sprintf("the bytes returned by MarshalUnsigned of a %s payload changed when another payload was encoded or hashed", d.T))
		}
		if err == nil {
			late := new(consensus.Payload)
			if e2 := late.UnmarshalUnsigned(enc); e2 != nil || late.Hash() != p1.Hash() {
				viol("encoding-overwritten-by-later-use", fmt.Sprintf("the kept encoding of a %s payload no longer decodes to it after another payload was encoded (err=%v)", d.T, e2))
			}
		}
		// a proposal rebuilt from a recovery message has the original's hash; rebuilt responses name it
		if d.T == dbft.RecoveryMessageType {
			for _, emb := range d.Emb {
				if emb.T != dbft.PrepareRequestType {
					continue
				}
				orig := emb.build()
				for _, src := range []refPayload{p1, dec} {
					if src == dec && err != nil {
						continue
					}
					req := src.GetRecoveryMessage().GetPrepareRequest(src, nil, emb.Idx)
					if req == nil || req.Hash() != orig.Hash() {
						viol("rebuilt-proposal-hash", "the proposal rebuilt from a recovery message does not have the original's hash")
					}
					for _, r := range src.GetRecoveryMessage().GetPrepareResponses(src, nil) {
						if r.GetPrepareResponse().PreparationHash() != orig.Hash() {
							viol("rebuilt-response-mismatch", "a response rebuilt from a recovery message does not name the rebuilt proposal")
						}
					}
					nresp := 0
					for _, x := range d.Emb {
						if x.T == dbft.PrepareResponseType {
							nresp++
						}
					}
					if got := len(src.GetRecoveryMessage().GetPrepareResponses(src, nil)); got != nresp {
						viol("D7-recovery-responses-lost", fmt.Sprintf("recovery message packed %d responses, %d can be rebuilt", nresp, got))
					}
				}
				cl["recovery_with_proposal"] = 1
			}
		}
		nt := d.T == dbft.RecoveryMessageType && len(d.Emb) >= 2 || (d.T == dbft.PrepareRequestType && len(d.Hashes) >= 2)
		e.Case(FPString(fmt.Sprintf("%+v|%s", d, what)), nt, cl, func() any { return map[string]any{"payload": observable(p1, primaryOf(d)), "mutation": what} })
	}
}

func c19Block(e *Env) func(*rapid.T) {
	return func(t *rapid.T) {
		ts := uint64(rapid.Uint32().Draw(t, "ts"))
		idx := rapid.Uint32().Draw(t, "index")
		prev := genHash().Draw(t, "prev")
		nonce := rapid.Uint64().Draw(t, "nonce")
		hashes := genHashes(64).Draw(t, "txs")
		amev := rapid.Bool().Draw(t, "amev")
		viol := func(key, msg string) {
			e.Violation(key, msg, fmt.Sprintf("ts=%d idx=%d prev=%s nonce=%d txs=%d amev=%v", ts, idx, prev, nonce, len(hashes), amev))
			t.Fatalf("%s: %s", key, msg)
		}
		mk := func(ts uint64, idx uint32, prev u256, nonce uint64, hs []u256) dbft.Block[u256] {
			txs := make([]dbft.Transaction[u256], 0, len(hs))
			if amev {
				pre := consensus.NewPreBlock(ts*sec, idx, prev, nonce, hs)
				for i := range hs {
					tx := consensus.Tx64(binary.LittleEndian.Uint64(hs[i][:8]))
					txs = append(txs, &tx)
				}
				pre.SetTransactions(txs)
				data := make([]byte, 4)
				binary.BigEndian.PutUint32(data, idx)
				return consensus.NewAMEVBlock(pre, [][]byte{data}, 1)
			}
			b := consensus.NewBlock(ts*sec, idx, prev, nonce, hs)
			b.SetTransactions(txs)
			return b
		}
		if amev {
			// the anti-MEV reference block derives its transaction hashes from Tx64 values: use hashes that are Tx64 hashes
			for i := range hashes {
				var h u256
				copy(h[:8], hashes[i][:8])
				hashes[i] = h
			}
			hashes = dedupHashes(hashes)
		}
		b1, b2 := mk(ts, idx, prev, nonce, hashes), mk(ts, idx, prev, nonce, hashes)
		if b1.Hash() != b2.Hash() {
			viol("block-hash-not-function-of-content", "two blocks built from the same fields have different hashes")
		}
		// the hash is bound to the transaction list through the Merkle root: the root must be the root of the
		// transactions the block really carries (for the anti-MEV block that includes the one derived from the pre-commit data)
		if txs := b1.Transactions(); len(txs) > 0 {
			leaves := make([]u256, len(txs))
			for i, tx := range txs {
				leaves[i] = tx.Hash()
			}
			if root := merkle.NewMerkleTree(leaves...).Root().Hash; root != b1.MerkleRoot() {
				viol("merkle-root-not-of-transactions", fmt.Sprintf("MerkleRoot() of a block with %d transactions is not the Merkle root of Transactions()", len(txs)))
			}
		}
		h0 := b1.Hash()
		priv, pub := crypto.Generate(rand.Reader)
		if err := b1.Sign(priv); err != nil {
			viol("sign-failed", err.Error())
		}
		if b1.Hash() != h0 || b2.Hash() != h0 {
			viol("signature-changes-hash", "signing a block changed its hash")
		}
		if !amev {
			// the same for a header whose transactions are not attached yet (what MakeHeader hands to the library:
			// it is signed and hashed before CreateBlock attaches the transactions to the same object)
			hd1, hd2 := consensus.NewBlock(ts*sec, idx, prev, nonce, hashes), consensus.NewBlock(ts*sec, idx, prev, nonce, hashes)
			hh := hd1.Hash()
			if err := hd1.Sign(priv); err != nil {
				viol("sign-failed", err.Error())
			}
			if hd1.Hash() != hh || hd2.Hash() != hh {
				viol("signature-changes-hash", "signing a header (transactions not attached yet) changed its hash")
			}
			hd1.SetTransactions([]dbft.Transaction[u256]{})
			hd2.SetTransactions([]dbft.Transaction[u256]{})
			if hd1.Hash() != h0 || hd2.Hash() != h0 {
				viol("block-hash-not-function-of-content", "a header completed after it was built (and signed) does not hash like the block built in one go")
			}
		}
		if err := b2.Verify(pub, b1.Signature()); err != nil {
			viol("signature-rejected", "a block signature does not verify under the signer's key for the same content")
		}
		_, pub2 := crypto.Generate(rand.Reader)
		if b2.Verify(pub2, b1.Signature()) == nil {
			viol("signature-verifies-under-other-key", "a block signature verifies under another key")
		}
		what := rapid.SampledFrom([]string{"index", "prev", "ts", "nonce", "addtx", "onetx", "swaptx"}).Draw(t, "mutation")
		mts, midx, mprev, mnonce, mh := ts, idx, prev, nonce, append([]u256(nil), hashes...)
		switch what {
		case "index":
			midx ^= 1 << uint(rapid.IntRange(0, 31).Draw(t, "bit"))
		case "prev":
			mprev[rapid.IntRange(0, 31).Draw(t, "pb")] ^= 1
		case "ts":
			mts = (ts + 1 + uint64(rapid.IntRange(0, 100).Draw(t, "dts"))) & 0xffffffff
			if mts == ts {
				mts = ts - 1
			}
		case "nonce":
			mnonce ^= 1 << uint(rapid.IntRange(0, 63).Draw(t, "bit"))
		case "addtx":
			var h u256
			binary.LittleEndian.PutUint64(h[:8], 0xfeedfacecafe)
			mh = dedupHashes(append(mh, h))
			if len(mh) == len(hashes) {
				what = "nonce"
				mnonce++
			}
		case "onetx":
			if len(mh) == 0 {
				what = "nonce"
				mnonce++
			} else {
				mh[rapid.IntRange(0, len(mh)-1).Draw(t, "hi")][3] ^= 0x20
				if len(dedupHashes(mh)) != len(mh) {
					what = "nonce"
					mh = append([]u256(nil), hashes...)
					mnonce++
				}
			}
		case "swaptx":
			if len(mh) < 2 {
				what = "nonce"
				mnonce++
			} else {
				i := rapid.IntRange(0, len(mh)-2).Draw(t, "hi")
				mh[i], mh[i+1] = mh[i+1], mh[i]
			}
		}
		mb := mk(mts, midx, mprev, mnonce, mh)
		if mb.Hash() == h0 {
			viol("block-hash-ignores-field", fmt.Sprintf("changing %q of a block does not change its hash", what))
		}
		if mb.Verify(pub, b1.Signature()) == nil {
			viol("signature-verifies-for-other-content", fmt.Sprintf("a block signature still verifies after %q changed", what))
		}
		e.Case(FPString(fmt.Sprintf("%d/%d/%s/%d/%v/%v/%s", ts, idx, prev, nonce, hashes, amev, what)), len(hashes) >= 2, map[string]int{"block_mutation_" + what: 1, "block": 1}, func() any {
			return map[string]any{"block": fmt.Sprintf("ts=%d idx=%d nonce=%d txs=%d amev=%v", ts, idx, nonce, len(hashes), amev), "mutation": what}
		})
	}
}

func dedupHashes(hs []u256) []u256 {
	seen := map[u256]bool{}
	var out []u256
	for _, h := range hs {
		if !seen[h] {
			seen[h] = true
			out = append(out, h)
		}
	}
	return out
}

func c19Crypto(e *Env) func(*rapid.T) {
	return func(t *rapid.T) {
		data := rapid.SliceOfN(rapid.Byte(), 0, 300).Draw(t, "data")
		priv, pub := crypto.Generate(rand.Reader)
		_, pub2 := crypto.Generate(rand.Reader)
		viol := func(key, msg string) {
			e.Violation(key, msg, fmt.Sprintf("data=%x", data))
			t.Fatalf("%s: %s", key, msg)
		}
		sig, err := priv.(*crypto.ECDSAPriv).Sign(data)
		if err != nil || len(sig) != 64 {
			viol("sign-failed", fmt.Sprintf("Sign: err=%v len=%d", err, len(sig)))
		}
		if pub.(*crypto.ECDSAPub).Verify(data, sig) != nil {
			viol("signature-rejected", "signature does not verify under the signer's key")
		}
		if pub2.(*crypto.ECDSAPub).Verify(data, sig) == nil {
			viol("signature-verifies-under-other-key", "signature verifies under another key")
		}
		alt := append([]byte(nil), data...)
		if len(alt) == 0 {
			alt = []byte{1}
		} else {
			alt[rapid.IntRange(0, len(alt)-1).Draw(t, "pos")] ^= 1 << uint(rapid.IntRange(0, 7).Draw(t, "bit"))
		}
		if pub.(*crypto.ECDSAPub).Verify(alt, sig) == nil {
			viol("signature-verifies-for-other-data", "signature verifies for altered data")
		}
		bad := append([]byte(nil), sig...)
		bad[rapid.IntRange(0, 63).Draw(t, "spos")] ^= 1 << uint(rapid.IntRange(0, 7).Draw(t, "sbit"))
		if pub.(*crypto.ECDSAPub).Verify(data, bad) == nil {
			viol("altered-signature-verifies", "an altered signature verifies")
		}
		e.Case(FPString(fmt.Sprintf("%x", data)), len(data) > 0, map[string]int{"crypto": 1}, func() any { return map[string]any{"signed_bytes": len(data)} })
	}
}

func c19Merkle(e *Env) func(*rapid.T) {
	return func(t *rapid.T) {
		leaves := rapid.SliceOfNDistinct(genHash(), 1, 64, func(h u256) u256 { return h }).Draw(t, "leaves")
		root := merkle.NewMerkleTree(leaves...).Root().Hash
		viol := func(key, msg string) {
			e.Violation(key, msg, fmt.Sprintf("leaves=%v", leaves))
			t.Fatalf("%s: %s", key, msg)
		}
		if merkle.NewMerkleTree(leaves...).Root().Hash != root {
			viol("merkle-not-deterministic", "the same leaves give different roots")
		}
		what := rapid.SampledFrom([]string{"leaf", "swap", "add", "remove"}).Draw(t, "mutation")
		m := append([]u256(nil), leaves...)
		switch what {
		case "leaf":
			m[rapid.IntRange(0, len(m)-1).Draw(t, "i")][9] ^= 0x11
			if len(dedupHashes(m)) != len(m) {
				return
			}
		case "swap":
			if len(m) < 2 {
				return
			}
			i := rapid.IntRange(0, len(m)-2).Draw(t, "i")
			j := rapid.IntRange(i+1, len(m)-1).Draw(t, "j")
			m[i], m[j] = m[j], m[i]
		case "add":
			var h u256
			h[20] = 0xAB
			m = dedupHashes(append(m, h))
			if len(m) == len(leaves) {
				return
			}
		case "remove":
			if len(m) < 2 {
				return
			}
			i := rapid.IntRange(0, len(m)-1).Draw(t, "i")
			m = append(m[:i:i], m[i+1:]...)
		}
		if merkle.NewMerkleTree(m...).Root().Hash == root {
			viol("merkle-root-unchanged", fmt.Sprintf("merkle root unchanged after %q", what))
		}
		e.Case(FPString(fmt.Sprintf("%v|%s", leaves, what)), len(leaves) >= 3, map[string]int{"merkle_" + what: 1}, func() any { return map[string]any{"leaves": len(leaves), "mutation": what} })
	}
}

// decodeArbitrary: the decoders return an error or a value, never panic; an accepted value can be read through every getter.
func decodeArbitrary(e *Env, b []byte) (accepted bool, panicMsg string) {
	defer func() {
		if r := recover(); r != nil {
			panicMsg = fmt.Sprint(r)
		}
	}()
	p := new(consensus.Payload)
	if err := p.UnmarshalUnsigned(b); err != nil {
		return false, ""
	}
	_ = observable(p, 0)
	_ = p.Hash()
	enc := p.MarshalUnsigned()
	q := new(consensus.Payload)
	if err := q.UnmarshalUnsigned(enc); err != nil {
		panic("re-encoding of an accepted payload is rejected: " + err.Error())
	}
	if observable(q, 0) != observable(p, 0) || q.Hash() != p.Hash() {
		panic("accepted payload does not survive its own round trip")
	}
	return true, ""
}

func c19Decode(e *Env) func(*rapid.T) {
	return func(t *rapid.T) {
		var b []byte
		mode := rapid.IntRange(0, 2).Draw(t, "mode")
		switch mode {
		case 0:
			b = rapid.SliceOfN(rapid.Byte(), 0, 200).Draw(t, "bytes")
		default: // a valid encoding with a few bytes changed / truncated
			d := genDesc(true).Draw(t, "payload")
			b = d.build().(*consensus.Payload).MarshalUnsigned()
			n := rapid.IntRange(1, 4).Draw(t, "nmut")
			for i := 0; i < n && len(b) > 0; i++ {
				b[rapid.IntRange(0, len(b)-1).Draw(t, "pos")] = rapid.Byte().Draw(t, "val")
			}
			if mode == 2 && len(b) > 1 {
				b = b[:rapid.IntRange(0, len(b)-1).Draw(t, "cut")]
			}
		}
		acc, pm := decodeArbitrary(e, b)
		if pm != "" {
			e.Violation("decoder-panics", "decoding arbitrary bytes: "+pm, fmt.Sprintf("bytes=%x", b))
			t.Fatalf("decoder panics on %x: %s", b, pm)
		}
		cl := map[string]int{"decode_arbitrary": 1}
		if acc {
			cl["decode_accepted"] = 1
		}
		e.Case(FPString(string(b)), mode > 0, cl, func() any { return map[string]any{"bytes": fmt.Sprintf("%x", b), "accepted": acc} })
	}
}

func TestC19(t *testing.T) {
	SkipUnlessSelected(t, "C19")
	e := GetEnv("C19")
	defer e.Flush()
	for _, f := range []func(*Env) func(*rapid.T){c19Payload, c19Block, c19Crypto, c19Merkle, c19Decode} {
		rapid.Check(t, f(e))
		if t.Failed() {
			return
		}
	}
}

// FuzzC19Decode is the coverage-guided half (thorough tier).
func FuzzC19Decode(f *testing.F) {
	e := GetEnv("C19")
	for _, d := range []desc{
		{T: dbft.PrepareRequestType, Height: 5, Idx: 1, Ts: 77, Nonce: 3, Hashes: []u256{{1}, {2}}},
		{T: dbft.ChangeViewType, Height: 5, View: 2, Idx: 1},
		{T: dbft.CommitType, Height: 9, Idx: 3},
		{T: dbft.RecoveryMessageType, Height: 5, View: 1, Emb: []desc{{T: dbft.PrepareRequestType, Height: 5, View: 1, Idx: 2, Hashes: []u256{{9}}}, {T: dbft.PrepareResponseType, Height: 5, View: 1, Idx: 3}, {T: dbft.CommitType, Height: 5, View: 1, Idx: 3}, {T: dbft.PreCommitType, Height: 5, View: 1, Idx: 4}, {T: dbft.ChangeViewType, Height: 5, Idx: 4}}},
	} {
		f.Add(d.build().(*consensus.Payload).MarshalUnsigned())
	}
	f.Add([]byte{})
	f.Fuzz(func(t *testing.T, b []byte) {
		if _, pm := decodeArbitrary(e, b); pm != "" {
			t.Fatalf("decoder panics: %s", pm)
		}
	})
}
