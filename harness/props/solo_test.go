package props

import (
	"fmt"
	"strings"
	"testing"
	"time"

	"github.com/nspcc-dev/dbft"
	"github.com/nspcc-dev/dbft/verifharness/sim"
	"github.com/nspcc-dev/dbft/verifharness/vt"
	"pgregory.net/rapid"
)

var mkC15 = func() []*sim.Mon { return []*sim.Mon{sim.MonC15()} }

func init() {
	replayers["C15"] = append(replayers["C15"], func(vals []int, keepLog bool) *sim.World {
		if len(vals) > 0 && vals[0] == 0 { // the first draw selects the generator (TestC15)
			return RunRestartedSolo(&ReplaySrc{Vals: vals[1:]}, mkC15(), keepLog)
		}
		if len(vals) > 0 {
			vals = vals[1:]
		}
		return RunSoloScript(&ReplaySrc{Vals: vals}, mkC15(), keepLog, SoloShape{ClockSteps: true, HugePools: true}).S.W
	})
	replayers["C14"] = append(replayers["C14"], func(vals []int, keepLog bool) *sim.World {
		w, _ := runC14(vals, keepLog)
		return w
	})
}

func TestC15(t *testing.T) {
	runProp(t, "C15", func(e *Env) func(*rapid.T) {
		return func(t *rapid.T) {
			src := &RapidSrc{T: t}
			var w *sim.World
			var render func() string
			if src.Intn("c15gen", 5) == 0 {
				// a primary restarted with empty state whose peers hand it back what it said before (its own proposal
				// included): whatever it proposes in this life, its own commitment is for that proposal (seeded change C15m)
				w = RunRestartedSolo(src, mkC15(), false)
				render = func() string { return RunRestartedSolo(&ReplaySrc{Vals: src.Rec[1:]}, mkC15(), true).Render() }
			} else {
				out := RunSoloScript(src, mkC15(), false, SoloShape{ClockSteps: true, HugePools: true})
				w = out.S.W
				for k, v := range out.Classes {
					w.Stats[k] += v
				}
				render = func() string {
					return RunSoloScript(&ReplaySrc{Vals: src.Rec[1:]}, mkC15(), true, SoloShape{ClockSteps: true, HugePools: true}).S.W.Render()
				}
			}
			fatal := e.Report(w, src.Rec, render)
			e.Case(FPInts(src.Rec), w.Stats["c15_nontrivial"] > 0, w.Stats, func() any { return sampleOf(w, src.Rec) })
			if fatal != "" {
				t.Fatalf("%s", fatal)
			}
		}
	})
}

// summarize renders a run's observable behaviour with absolute instants made relative to `shift`
// and payload hashes replaced by first-seen ordinals.
func summarize(out *SoloOut, shift time.Duration) []string {
	ord := map[vt.H]int{}
	name := func(h vt.H) string {
		if _, ok := ord[h]; !ok {
			ord[h] = len(ord)
		}
		return fmt.Sprintf("#%d", ord[h])
	}
	rel := func(ts uint64) string { return fmt.Sprint(int64(ts) - int64(shift)) }
	var lines []string
	var one func(p sim.Payload) string
	one = func(p sim.Payload) string {
		s := fmt.Sprintf("%s h=%d v=%d i=%d", p.T, p.Ht, p.V, p.Idx)
		switch b := p.Body.(type) {
		case *vt.PrepareRequest:
			s += fmt.Sprintf(" ts=%s nonce=%d txs=%d", rel(b.Ts), b.N, len(b.Hashes))
		case *vt.PrepareResponse:
			s += " prep=" + name(b.Prep)
		case *vt.ChangeView:
			s += fmt.Sprintf(" nv=%d r=%d ts=%s", b.NewView, b.R, rel(b.Ts))
		case *vt.RecoveryRequest:
			s += " ts=" + rel(b.Ts)
		case *vt.Commit:
			s += fmt.Sprintf(" siglen=%d", len(b.Sig))
		case *vt.PreCommit:
			s += fmt.Sprintf(" dlen=%d", len(b.D))
		case *vt.RecoveryMessage:
			s += " ["
			for _, e := range b.Embedded {
				s += one(e) + "; "
			}
			s += "]"
		}
		_ = name(p.Hash())
		return s
	}
	for _, p := range out.S.W.Sent {
		lines = append(lines, one(p))
	}
	lines = append(lines, out.Timer...)
	for h, bs := range out.S.N.Accepted {
		for _, b := range bs {
			lines = append(lines, fmt.Sprintf("accepted h=%d ts=%s nonce=%d txs=%d", h, rel(b.Ts), b.Nonce, len(b.TxHashes)))
		}
	}
	return lines
}

// summarizeKinds renders what must not change when only the clock moves and every input stays as it
// was: which payloads are sent (type, height, view, sender; embedded ones too), every Timer.Reset/Extend
// argument, and which heights are decided with how many transactions.  Timestamps inside the node's own
// proposals legitimately follow the clock and are left out.
func summarizeKinds(out *SoloOut) []string {
	var lines []string
	var one func(p sim.Payload) string
	one = func(p sim.Payload) string {
		s := fmt.Sprintf("%s h=%d v=%d i=%d", p.T, p.Ht, p.V, p.Idx)
		if b, ok := p.Body.(*vt.RecoveryMessage); ok {
			s += " ["
			for _, e := range b.Embedded {
				s += one(e) + "; "
			}
			s += "]"
		}
		return s
	}
	for _, p := range out.S.W.Sent {
		lines = append(lines, one(p))
	}
	lines = append(lines, out.Timer...)
	for h, bs := range out.S.N.Accepted {
		for _, b := range bs {
			lines = append(lines, fmt.Sprintf("accepted h=%d txs=%d", h, len(b.TxHashes)))
		}
	}
	return lines
}

// runC14 runs one script three times: at epoch E, at E+delta, and again at E after the wall clock moved.
func runC14(vals []int, keepLog bool) (*sim.World, map[string]int) {
	pre := &ReplaySrc{Vals: vals}
	// the offset: a multiple of every timestamp increment the generator uses
	// (1ns, 7ns, 999983ns, 1ms, 1s): k * 7*999983 seconds (about 81 days), past or future, up to decades
	k := pre.Intn("shiftk", 300) + 1
	if pre.Intn("shiftsign", 2) == 1 {
		k = -(k%100 + 1)
	}
	small, incs := pre.Intn("shiftsmall", 3), pre.Intn("shiftsec", 1000)
	if k < 0 {
		incs = -incs
	}
	if small == 0 {
		k = k % 3
		if k == 0 {
			k = 1
		}
	}
	delta := time.Duration(k) * 7 * 999983 * time.Second
	rest := vals
	if len(vals) >= pre.pos {
		rest = vals[pre.pos:]
	}
	a := RunSoloScript(&ReplaySrc{Vals: rest}, nil, keepLog, SoloShape{})
	// plus a drawn number of timestamp increments of the script's own configuration: the offset stays a multiple
	// of the increment without being a multiple of a millisecond
	b := RunSoloScript(&ReplaySrc{Vals: rest}, nil, false, SoloShape{Shift: delta, ShiftIncs: incs})
	delta = b.Shift
	time.Sleep(1500 * time.Microsecond)
	c := RunSoloScript(&ReplaySrc{Vals: rest}, nil, false, SoloShape{})
	w := a.S.W
	sa, sb, sc := summarize(a, 0), summarize(b, delta), summarize(c, 0)
	diff := func(x, y []string) string {
		for i := 0; i < len(x) || i < len(y); i++ {
			var l, r string
			if i < len(x) {
				l = x[i]
			}
			if i < len(y) {
				r = y[i]
			}
			if l != r {
				return fmt.Sprintf("first difference at observation %d: %q vs %q", i, l, r)
			}
		}
		return ""
	}
	// accepted blocks are rendered from a map: compare as sets
	norm := func(x []string) []string {
		var head, acc []string
		for _, l := range x {
			if strings.HasPrefix(l, "accepted ") {
				acc = append(acc, l)
			} else {
				head = append(head, l)
			}
		}
		for i := range acc {
			for j := i + 1; j < len(acc); j++ {
				if acc[j] < acc[i] {
					acc[i], acc[j] = acc[j], acc[i]
				}
			}
		}
		return append(head, acc...)
	}
	sa, sb, sc = norm(sa), norm(sb), norm(sc)
	if d := diff(sa, sb); d != "" {
		w.Fail("C14", fmt.Sprintf("behaviour depends on the clock's absolute value: epoch shifted by %s: %s", delta, d), "clock-shift-changes-behaviour")
	}
	if d := diff(sa, sc); d != "" {
		w.Fail("C14", "behaviour depends on the machine's wall clock: the same run repeated later differs: "+d, "wall-clock-dependence")
	}
	// the same calls with the same arguments (the peers' proposals and the previous block keep their
	// timestamps), only the injected clock differs by the offset: same payload sequence, same timer durations
	co := RunSoloScript(&ReplaySrc{Vals: rest}, nil, false, SoloShape{Shift: b.Shift, ClockOnly: true})
	if d := diff(norm(summarizeKinds(a)), norm(summarizeKinds(co))); d != "" {
		w.Fail("C14", fmt.Sprintf("behaviour depends on how the injected clock relates to the data it is given: only the clock shifted by %s, same calls: %s", delta, d), "clock-only-shift-changes-behaviour")
	}
	// ... and wherever the inputs leave the timestamp of an own proposal to the clock in both runs (the previous block's
	// timestamp plus the increment is not ahead of it), it moves by exactly the offset
	ownCmp := 0
	for i := 0; i < len(a.OwnTs) && i < len(co.OwnTs); i++ {
		x, y := a.OwnTs[i], co.OwnTs[i]
		if x.H != y.H || x.V != y.V || !x.ClockWin || !y.ClockWin {
			continue
		}
		ownCmp++
		if x.Rel != y.Rel {
			w.Fail("C14", fmt.Sprintf("own proposal at (%d,%d): with only the clock shifted by %s its timestamp moved by %s (both clocks are past the previous block's timestamp + increment)", x.H, x.V, b.Shift, b.Shift+time.Duration(y.Rel-x.Rel)), "clock-only-shift-changes-timestamp")
		}
	}
	cl := map[string]int{}
	if ownCmp > 0 {
		cl["own_timestamps_compared_clock_only"] = ownCmp
	}
	for k, v := range a.Classes {
		cl[k] = v
	}
	for k, v := range w.Stats {
		cl[k] += v
	}
	own := 0
	for _, p := range w.Sent {
		if p.T == dbft.PrepareRequestType {
			own++
		}
	}
	if own > 0 {
		cl["own_proposals"] = own
	}
	return w, cl
}

func TestC14(t *testing.T) {
	runProp(t, "C14", func(e *Env) func(*rapid.T) {
		return func(t *rapid.T) {
			src := &RapidSrc{T: t}
			// draw the whole stream through rapid by running the script once against the recorder
			pre := src
			_ = pre.Intn("shiftk", 300)
			_ = pre.Intn("shiftsign", 2)
			_ = pre.Intn("shiftsmall", 3)
			_ = pre.Intn("shiftsec", 1000)
			RunSoloScript(src, nil, false, SoloShape{})
			w, cl := runC14fromRec(src.Rec)
			fatal := e.Report(w, src.Rec, func() string {
				w2, _ := runC14fromRec(src.Rec)
				_ = w2
				ww, _ := runC14Keep(src.Rec)
				return ww.Render()
			})
			e.Case(FPInts(src.Rec), cl["rtt_feeds_timer"] > 0, cl, func() any { return sampleOf(w, src.Rec) })
			if fatal != "" {
				t.Fatalf("%s", fatal)
			}
		}
	})
}

func runC14fromRec(rec []int) (*sim.World, map[string]int) { return runC14(rec, false) }
func runC14Keep(rec []int) (*sim.World, map[string]int)    { return runC14(rec, true) }
