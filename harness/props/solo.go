package props

import (
	"fmt"
	"time"

	"github.com/nspcc-dev/dbft"
	"github.com/nspcc-dev/dbft/verifharness/sim"
	"github.com/nspcc-dev/dbft/verifharness/vt"
)

// SoloShape tunes the single-node script generator (driver B).
type SoloShape struct {
	// Shift moves every absolute instant of the run (clock epoch and previous block timestamp).
	Shift time.Duration
	// ShiftIncs adds that many timestamp increments of the drawn configuration to Shift (the increment is only
	// known inside the script): offsets that are multiples of the increment but not of a millisecond or a second.
	ShiftIncs int
	// ClockOnly: only the injected clock is shifted; every input (previous block timestamp, the
	// peers' proposals) is the one of the unshifted run - "the same sequence of calls".
	ClockOnly bool
	// ClockSteps allows the clock to step backwards.
	ClockSteps bool
	// HugePools: once in a few hundred scripts the verified pool holds more transactions than a 16-bit counter can
	// express and the application sets no per-block limit (the callback's contract names none).
	HugePools bool
}

// SoloOut is what a script run produced, in order.
type SoloOut struct {
	Shift   time.Duration // the offset actually applied (Shift + ShiftIncs increments)
	S       *sim.Solo
	Timer   []string // Timer.Reset/Extend arguments
	Classes map[string]int
	// OwnTs: per own proposal, its timestamp relative to the run's epoch and whether the inputs alone say that the
	// clock decides it (previous block timestamp + increment <= clock truncated to the increment)
	OwnTs []OwnTs
}

type OwnTs struct {
	H        uint32
	V        byte
	Rel      int64
	ClockWin bool
}

// RunSoloScript draws a configuration and a script and runs it against one real node.
// The script only refers to the node's own outputs and state, so two runs on clocks that
// differ by a constant offset follow the same script exactly when the node behaves the same.
func RunSoloScript(r sim.Src, mons []*sim.Mon, keepLog bool, sh SoloShape) *SoloOut {
	n := 1 + pick(r, "N", 10, 5, 5, 40, 10, 10, 20)
	self := r.Intn("self", n)
	inc := []uint64{1_000_000, 1, 1_000_000_000, 7, 999_983}[pick(r, "inc", 50, 10, 20, 10, 10)]
	tpb := []time.Duration{time.Second, 5 * time.Second, 15 * time.Second}[r.Intn("tpb", 3)]
	startTip := uint32(r.Intn("tip", 40))
	if r.Intn("tipprimary", 2) == 0 {
		// make the node primary of view 0 at the first height
		for (int(startTip)+1)%n != self {
			startTip++
		}
	}
	amev := int64(-1)
	switch pick(r, "amev", 55, 30, 15) {
	case 1:
		amev = 0
	case 2:
		amev = int64(startTip) + 2
	}
	epoch := drawEpoch(r)
	shift := sh.Shift + time.Duration(int64(sh.ShiftIncs)*int64(inc))
	nearUnix := r.Intn("nearunixepoch", 6) == 0
	if nearUnix {
		// a clock that counts from (nearly) the Unix epoch, as a virtual clock may: an instant that is really an unset
		// marker then lies close to "now" (seeded change C14k).  Such a run is only ever moved forward in time.
		epoch = time.Unix(int64(100+r.Intn("unixsecs", 1200)), int64(r.Intn("epochns", 1000))*1_000_003).UTC()
		if shift < 0 {
			shift = -shift
		}
	}
	base := make([]int, n)
	for i := range base {
		base[i] = i
	}
	cfg := sim.Cfg{IDs: n, Validators: func(uint32) []int { return base }, ValDesc: fmt.Sprintf("const[0..%d]", n-1), StartTip: startTip,
		AMEVHeight: amev, TimePerBlock: tpb, TsIncrement: inc, Epoch: epoch.Add(shift)}
	if r.Intn("dyn", 4) == 0 {
		cfg.MaxTimePerBlock = tpb * time.Duration([]int{2, 3, 4, 6, 8}[r.Intn("dynratio", 5)]) / 2 // ratio 1, 1.5, 2, 3 or 4
	}
	out := &SoloOut{Classes: map[string]int{}, Shift: shift}
	if nearUnix {
		out.Classes["clock_near_unix_epoch"]++
	}
	tm := &sim.Mon{Name: "timerlog",
		TimerReset: func(n *sim.Node, h uint32, v byte, d time.Duration) {
			out.Timer = append(out.Timer, fmt.Sprintf("reset(%d,%d,%s)", h, v, d))
		},
		TimerExtend: func(n *sim.Node, d time.Duration) { out.Timer = append(out.Timer, fmt.Sprintf("extend(%s)", d)) },
		Broadcast: func(n *sim.Node, p sim.Payload) {
			if p.T == dbft.PrepareRequestType {
				ts := p.Body.(*vt.PrepareRequest).Ts
				now := uint64(n.Now().UnixNano())
				out.OwnTs = append(out.OwnTs, OwnTs{H: p.Ht, V: p.V, Rel: int64(ts) - cfg.Epoch.UnixNano(), ClockWin: n.TipTs+inc <= now/inc*inc})
			}
		},
	}
	s := sim.NewSolo(cfg, r, self, false, append([]*sim.Mon{tm}, mons...), keepLog)
	out.S = s
	nd := s.N
	if sh.ClockSteps && r.Intn("readskew", 3) == 0 {
		nd.ReadSkew = true // the clock may also move between two reads inside one call
		out.Classes["clock_moves_inside_calls"]++
	}
	inShift := shift // how far the scripted inputs move with the clock
	if sh.ClockOnly {
		inShift = 0
	}
	inEpoch := uint64(epoch.Add(inShift).UnixNano())
	inNow := func() uint64 { return uint64(nd.Now().Add(inShift - shift).UnixNano()) }
	// previous block timestamp: before / around / after the clock, not aligned
	switch r.Intn("prevts", 4) {
	case 0:
		nd.TipTs = inEpoch - uint64(tpb) + uint64(r.Intn("prevjit", 1000))
	case 1:
		nd.TipTs = inEpoch + uint64(r.Intn("prevjit", 1000))
	case 2:
		nd.TipTs = inEpoch + uint64(tpb)*uint64(1+r.Intn("prevahead", 5)) // the clock is behind the chain
		out.Classes["clock_behind_chain"]++
	default:
		nd.TipTs = inEpoch / inc * inc
	}
	if startTip == 0 && r.Intn("genesisTs", 2) == 0 {
		nd.TipTs = 0
	}
	ntx := r.Intn("ntx", 8)
	if r.Intn("manytx", 5) == 0 {
		ntx += 13
	}
	for i := 0; i < ntx; i++ {
		nd.AddTx(s.W.NewTx(false))
	}
	nd.MaxTx = r.Intn("maxtx", 6) // 0: no limit
	if sh.HugePools && sim.Scramble(r.Intn("hugepool", 400), 400) == 1 { // (not "== 0": rapid favours small values)
		for i, k := 0, 65536+r.Intn("hugeextra", 8); i < k; i++ {
			nd.AddTx(s.W.NewTx(false))
		}
		nd.MaxTx = 0
		out.Classes["pool_above_65535"]++
	}
	nd.Start()
	steps := 20 + r.Intn("steps", 6)*20
	peer := 0 // rotating peer index for scripted messages
	nextPeer := func() int {
		o := s.Others()
		if len(o) == 0 {
			return -1
		}
		peer++
		return o[peer%len(o)]
	}
	primaryRoundDelayed, resetAfter := false, false
	for i := 0; i < steps && len(s.W.Viols) == 0 && !nd.Crashed; i++ {
		s.W.Step = i + 1
		d := nd.D
		switch pick(r, "step", 14, 10, 14, 14, 14, 6, 6, 8, 4, 4, 8, 4, 4, 3) {
		case 0: // advance the clock
			dt := tpb * time.Duration(1+r.Intn("dt", 40)) / 20
			if r.Intn("fine", 3) == 0 {
				dt = time.Duration(1+r.Intn("dtfine", 999)) * time.Millisecond
			}
			s.Advance(dt)
		case 1: // fire the timer when due (or force it)
			if nd.Timer.Pending && nd.Active() && nd.Timer.D < 50*365*24*time.Hour { // (a deadline beyond the year 2262 is outside the clock range of the contract)
				s.Fire()
				out.Classes["timeout"]++
			}
		case 2: // the primary's proposal (when the node is a backup and holds none)
			if !d.BlockSent() && !d.RequestSentOrReceived() && !d.IsPrimary() {
				var txs []vt.Tx
				k := r.Intn("ptx", 4)
				for j := 0; j < k && j < len(s.W.Universe); j++ {
					txs = append(txs, s.W.Universe[(j+i)%len(s.W.Universe)])
				}
				txs = dedupTx(txs)
				ts := max(nd.TipTs+inc, inNow()/inc*inc)
				nd.Receive(s.Proposal(d.ViewNumber, ts, uint64(100+i), txs...))
			}
		case 3: // a matching response from the next peer
			if pp := d.PreparationPayloads[d.PrimaryIndex]; pp != nil && !d.BlockSent() {
				if j := nextPeer(); j >= 0 && j != int(d.PrimaryIndex) {
					if d.IsPrimary() && r.Intn("delayresp", 2) == 0 {
						s.Advance(time.Duration(1+r.Intn("rtt", 400)) * time.Millisecond)
						primaryRoundDelayed = true
					}
					nd.Receive(s.Response(j, d.ViewNumber, pp.Hash()))
				}
			}
		case 4: // a valid commit / pre-commit from the next peer for the held proposal
			if pp := d.PreparationPayloads[d.PrimaryIndex]; pp != nil && pp.Type() == dbft.PrepareRequestType && !d.BlockSent() {
				if j := nextPeer(); j >= 0 {
					p := pp.(*vt.Payload)
					if s.W.Cfg.AMEVOn(d.BlockIndex) && r.Intn("pcorcm", 2) == 0 {
						nd.Receive(s.PreCommit(j, p))
					} else {
						nd.Receive(s.Commit(j, p))
					}
				}
			}
		case 5: // change view request from the next peer
			if j := nextPeer(); j >= 0 && !d.BlockSent() {
				nd.Receive(s.CV(j, d.ViewNumber, d.ViewNumber+1))
				out.Classes["cv"]++
			}
		case 6: // recovery request from a peer
			if j := nextPeer(); j >= 0 {
				nd.Receive(s.RecoveryRequest(j, d.ViewNumber))
			}
		case 7: // supply a missing transaction
			if wl := sim.Wanted(nd); len(wl) > 0 { // the application's own record of RequestTx calls, not the library's list
				h := wl[r.Intn("missing", len(wl))]
				delete(nd.Want, h)
				if tx, ok := s.W.TxByHash(h); ok {
					nd.Transaction(tx)
				}
			}
		case 8: // a new transaction reaches the pool
			tx := s.W.NewTx(false)
			if nd.AddTx(tx) && nd.Subscribed {
				nd.Subscribed = false
				nd.NewTransaction()
			}
		case 10: // a peer's recovery message carrying the round so far: the proposal, some responses, maybe commits
			if o := s.Others(); len(o) > 0 && !d.BlockSent() && !d.IsPrimary() {
				var p sim.Payload
				if pp := d.PreparationPayloads[d.PrimaryIndex]; pp != nil && pp.Type() == dbft.PrepareRequestType {
					p = pp.(*vt.Payload)
				} else if pp == nil {
					ts := max(nd.TipTs+inc, inNow()/inc*inc)
					if r.Intn("rmoldts", 2) == 0 && nd.TipTs != 0 { // (a genesis timestamp of 0 does not move with the epoch)
						ts = nd.TipTs + inc // an old proposal: its primary's clock was behind, or it was made long ago
					}
					p = s.Proposal(d.ViewNumber, ts, uint64(100+i))
				}
				if p != nil {
					emb := []sim.Payload{p}
					for k := r.Intn("rmresp", n); k > 0; k-- {
						if j := nextPeer(); j != int(d.PrimaryIndex) {
							emb = append(emb, s.Response(j, d.ViewNumber, p.Hash()))
						}
					}
					for k := r.Intn("rmcommit", 3); k > 0; k-- {
						emb = append(emb, s.Commit(nextPeer(), p))
					}
					nd.Receive(s.Recovery(o[i%len(o)], d.ViewNumber, emb...))
					out.Classes["recovery_with_preparations"]++
				}
			}
		case 11: // a response that reaches the primary before it has proposed (an eager or faulty backup; it names some proposal)
			if d.IsPrimary() && !d.RequestSentOrReceived() && !d.BlockSent() {
				if j := nextPeer(); j >= 0 {
					nd.Receive(s.Response(j, d.ViewNumber, vt.Sum([]byte{byte(i), 0xe})))
					out.Classes["response_before_own_proposal"]++
				}
			}
		case 12: // a commit or pre-commit that reaches the primary before it has proposed (reordered, replayed or forged:
			// it cannot be for the proposal the node is going to make)
			if d.IsPrimary() && !d.RequestSentOrReceived() && !d.BlockSent() {
				if j := nextPeer(); j >= 0 {
					if s.W.Cfg.AMEVOn(d.BlockIndex) && r.Intn("earlypc", 3) > 0 {
						nd.Receive(s.BadPreCommit(j, d.ViewNumber, i))
					} else {
						nd.Receive(s.BadCommit(j, d.ViewNumber, i))
					}
					out.Classes["commit_before_own_proposal"]++
				}
			}
		case 13: // view climb: every peer asks for the next view, again and again - the node is carried through dozens of
			// views whose timeouts grow beyond anything a clock difference could be (seeded change C14m: the timer of a
			// high view computed from the absolute clock reading)
			if o := s.Others(); len(o) > 0 && !d.BlockSent() && !d.CommitSent() && !d.PreCommitSent() {
				top := 0
				for k := 1 + r.Intn("climb", 40); k > 0 && int(d.ViewNumber) < 60 && !nd.Crashed && !d.BlockSent(); k-- {
					v := d.ViewNumber
					for _, j := range o {
						if d.ViewNumber != v {
							break
						}
						nd.Receive(s.CV(j, v, v+1))
					}
					if d.ViewNumber == v {
						break
					}
					top = int(d.ViewNumber)
				}
				if top >= 28 {
					out.Classes["view_climb_ge_28"]++
				}
				out.Classes["view_climb"]++
			}
		default: // the clock steps back
			if sh.ClockSteps {
				s.Advance(-time.Duration(1+r.Intn("back", 3000)) * time.Millisecond)
				out.Classes["clock_stepped_back"]++
			}
		}
		if nd.NeedInit && !nd.Crashed {
			if primaryRoundDelayed {
				resetAfter = true
			}
			if sh.ClockSteps && r.Intn("prevback", 5) == 0 {
				// the ledger reports an older previous-block timestamp than at an earlier height (a reorganisation):
				// the timestamp given at this re-initialisation is the only one that counts
				back := uint64(tpb) * uint64(1+r.Intn("prevbackby", 8))
				if back < nd.TipTs {
					nd.TipTs -= back
					out.Classes["prev_timestamp_moved_back"]++
				}
			}
			nd.Reset()
			out.Classes["heights"]++
		}
	}
	if primaryRoundDelayed && resetAfter {
		out.Classes["rtt_feeds_timer"]++
	}
	s.W.Finish()
	return out
}

func dedupTx(txs []vt.Tx) []vt.Tx {
	var out []vt.Tx
	seen := map[vt.Tx]bool{}
	for _, t := range txs {
		if !seen[t] {
			seen[t] = true
			out = append(out, t)
		}
	}
	return out
}

// RunViewStorm drives one node through many views (change views from every peer, then its own
// timeout; occasionally a proposal, a poisoned proposal or a recovery message in between), far
// beyond what timed worlds can reach: the clock jumps to each deadline.
func RunViewStorm(r sim.Src, mons []*sim.Mon, keepLog bool) *sim.World {
	n := 1 + pick(r, "N", 10, 5, 5, 40, 10, 10, 20)
	self := r.Intn("self", n)
	tpb := []time.Duration{time.Second, 5 * time.Second, 15 * time.Second, 100 * time.Millisecond}[r.Intn("tpb", 4)]
	base := make([]int, n)
	for i := range base {
		base[i] = i
	}
	amev := int64(-1)
	if r.Intn("amev", 3) == 0 {
		amev = 0
	}
	cfg := sim.Cfg{IDs: n, Validators: func(uint32) []int { return base }, ValDesc: fmt.Sprintf("const[0..%d]", n-1), StartTip: uint32(r.Intn("tip", 20)),
		AMEVHeight: amev, TimePerBlock: tpb, TsIncrement: 1_000_000, Epoch: epoch0}
	s := sim.NewSolo(cfg, r, self, false, mons, keepLog)
	nd := s.N
	nd.Start()
	target := 3 + r.Intn("views", 45)
	for step := 0; step < 4*target && int(s.V()) < target && len(s.W.Viols) == 0 && !nd.Crashed && !nd.D.BlockSent(); step++ {
		s.W.Step = step + 1
		v := s.V()
		if nd.Timer.D > 50*365*24*time.Hour {
			break // the next deadline lies beyond the clock range the contract covers (< year 2262)
		}
		switch pick(r, "storm", 60, 10, 10, 10, 10) {
		case 0:
			for _, j := range s.Others() {
				nd.Receive(s.CV(j, v, v+1))
			}
			if s.V() == v && nd.Timer.Pending {
				s.Fire()
			}
		case 1:
			if nd.Timer.Pending {
				s.Fire()
			}
		case 2:
			if !nd.D.IsPrimary() && !nd.D.RequestSentOrReceived() {
				nd.Receive(s.Proposal(v, s.NextTs(), uint64(step), s.W.NewTx(true)))
			}
		case 3:
			if o := s.Others(); len(o) > 0 {
				var cvs []sim.Payload
				for _, j := range o {
					cvs = append(cvs, s.CV(j, v, v+1+byte(r.Intn("jump", 3))))
				}
				nd.Receive(s.Recovery(o[0], v+1, cvs...))
			}
		default:
			if wl := sim.Wanted(nd); len(wl) > 0 {
				delete(nd.Want, wl[0])
				if tx, ok := s.W.TxByHash(wl[0]); ok {
					nd.Transaction(tx)
				}
			}
		}
	}
	if int(s.V()) >= 20 {
		s.W.Stat("storm_view_ge_20")
	}
	s.W.Stat("storm")
	s.W.Finish()
	return s.W
}

// RunNestedTx builds the situation C12's last sentence is about: the node holds M-1 change view
// requests and the next view's proposal (cached, with missing transactions) while it works on a
// proposal whose block will fail verification; supplying that proposal's last transaction makes it
// ask for a view change, change view and start on the cached proposal inside the same call.
// Everything else (orders, counts, interleaved events) is drawn.
func RunNestedTx(r sim.Src, mons []*sim.Mon, keepLog bool) *sim.World {
	n := 4 + pick(r, "N", 50, 10, 10, 30)
	self := r.Intn("self", n)
	base := make([]int, n)
	for i := range base {
		base[i] = i
	}
	amev := int64(-1)
	if r.Intn("amev", 3) == 0 {
		amev = 0
	}
	tip := uint32(r.Intn("tip", 30))
	for (int(tip)+1)%n == self || (int(tip)+n)%n == self { // backup in views 0 and 1
		tip++
	}
	cfg := sim.Cfg{IDs: n, Validators: func(uint32) []int { return base }, ValDesc: fmt.Sprintf("const[0..%d]", n-1), StartTip: tip,
		AMEVHeight: amev, TimePerBlock: time.Second, TsIncrement: 1_000_000, Epoch: epoch0}
	s := sim.NewSolo(cfg, r, self, false, mons, keepLog)
	nd := s.N
	nd.Start()
	M := n - (n-1)/3
	// M-1 change views for view 1 from others (never from the node itself)
	others := s.Others()
	rot := r.Intn("cvrot", len(others))
	for i := 0; i < M-1; i++ {
		nd.Receive(s.CV(others[(i+rot)%len(others)], 0, 1))
	}
	cvHeld := 0
	for _, p := range nd.D.ChangeViewPayloads {
		if p != nil {
			cvHeld++
		}
	}
	// proposal of view 0 with k0 unknown transactions, one of them poisoned (verification will fail)
	k0 := 1 + r.Intn("k0", 3)
	var tx0 []vt.Tx
	for i := 0; i < k0; i++ {
		tx0 = append(tx0, s.W.NewTx(i == 0))
	}
	// proposal of view 1 arrives early (cached), with k1 unknown transactions; some of them may
	// be (valid) transactions of the view 0 proposal: the new primary proposes them again
	k1 := 1 + r.Intn("k1", 3)
	var tx1 []vt.Tx
	shared := 0
	for i := 0; i < k1; i++ {
		if 1+shared < k0 && r.Intn("share", 2) == 1 {
			shared++
			tx1 = append(tx1, tx0[shared])
		} else {
			tx1 = append(tx1, s.W.NewTx(false))
		}
	}
	if shared > 0 {
		s.W.Stat("c12_nested_shared_tx")
	}
	p1 := s.Proposal(1, s.NextTs(), 11, tx1...)
	nd.Receive(p1)
	// drawn order inside the proposal
	if k0 > 1 && r.Intn("rot0", 2) == 1 {
		tx0[0], tx0[k0-1] = tx0[k0-1], tx0[0]
	}
	p0 := s.Proposal(0, s.NextTs(), 10, tx0...)
	nd.Receive(p0)
	supply := func(txs []vt.Tx, label string) {
		order := make([]int, len(txs))
		for i := range order {
			order[i] = i
		}
		for i := len(order) - 1; i > 0; i-- {
			j := r.Intn(label, i+1)
			order[i], order[j] = order[j], order[i]
		}
		for _, i := range order {
			switch r.Intn("between", 5) {
			case 0:
				nd.Receive(s.RecoveryRequest(others[r.Intn("rq", len(others))], nd.D.ViewNumber))
			case 1:
				nd.Transaction(s.W.NewTx(false)) // an unsolicited one in between
			case 2:
				if pp := nd.D.PreparationPayloads[nd.D.PrimaryIndex]; pp != nil {
					j := others[r.Intn("resp", len(others))]
					if j != int(nd.D.PrimaryIndex) {
						nd.Receive(s.Response(j, nd.D.ViewNumber, pp.Hash()))
					}
				}
			}
			nd.Transaction(txs[i])
		}
	}
	if r.Intn("pooltimeout", 3) == 0 && nd.D.ViewNumber == 0 {
		// the last transaction of the failing proposal reaches the pool instead of the node; more than F peers have
		// committed, so the node's timeout becomes a recovery request whose re-lookup completes the proposal - the
		// nested view change then happens inside OnTimeout, under sendRecoveryRequest
		supply(tx0[:len(tx0)-1], "order0")
		nd.AddTx(tx0[len(tx0)-1])
		for i := 0; i <= (n-1)/3; i++ {
			nd.Receive(s.Commit(others[(i+rot)%len(others)], p0))
		}
		if nd.Timer.Pending && nd.D.ViewNumber == 0 {
			s.Fire()
			s.W.Stat("c12_pool_completion_on_timeout")
		}
	} else {
		supply(tx0, "order0")
	}
	if nd.D.ViewNumber == 1 {
		s.W.Stat("c12_nested_view_change")
	}
	supply(tx1, "order1")
	if cvHeld >= M-1 {
		s.W.Stat("c12_nested_prepared")
	}
	s.W.Finish()
	return s.W
}

// RunNestedRecovery explores what happens when a recovery message full of change view requests is
// processed by a node that holds cached future-view traffic: the first requests may complete a view
// change, the cached proposal and responses are replayed inside that nested call (the node may respond,
// pre-commit or commit there), and the remaining requests of the same message are processed afterwards.
// Counts, views, orders and what is cached are drawn.
func RunNestedRecovery(r sim.Src, mons []*sim.Mon, keepLog bool) *sim.World {
	n := 4 + pick(r, "N", 15, 10, 10, 65)
	self := r.Intn("self", n)
	base := make([]int, n)
	for i := range base {
		base[i] = i
	}
	amev := int64(-1)
	if r.Intn("amev", 3) == 0 {
		amev = 0
	}
	cfg := sim.Cfg{IDs: n, Validators: func(uint32) []int { return base }, ValDesc: fmt.Sprintf("const[0..%d]", n-1), StartTip: uint32(r.Intn("tip", 40)),
		AMEVHeight: amev, TimePerBlock: time.Second, TsIncrement: 1_000_000, Epoch: epoch0}
	cfg.SaltedSigs = r.Intn("saltedsigs", 2) == 1
	cfg.PreDataTxOnly = amev >= 0 && r.Intn("predata", 2) == 1
	s := sim.NewSolo(cfg, r, self, false, mons, keepLog)
	nd := s.N
	nd.Start()
	M := n - (n-1)/3
	others := s.Others()
	perm := func(label string) []int {
		o := append([]int(nil), others...)
		for i := len(o) - 1; i > 0; i-- {
			j := r.Intn(label, i+1)
			o[i], o[j] = o[j], o[i]
		}
		return o
	}
	// A: cached traffic of view 1 (and sometimes view 2)
	props := map[byte]sim.Payload{}
	for _, fv := range []byte{1, 2} {
		if r.Intn("cacheview", 3) == 0 && fv == 2 {
			continue
		}
		if s.Primary(fv) == nd.D.MyIndex || r.Intn("cacheprop", 4) == 0 {
			continue
		}
		p := s.Proposal(fv, s.NextTs(), uint64(20+fv))
		props[fv] = p
		nd.Receive(p)
		k := r.Intn("cacheresp", n-1)
		for _, j := range perm("cacheorder")[:min(k, len(others))] {
			if j != s.Primary(fv) {
				nd.Receive(s.Response(j, fv, p.Hash()))
			}
		}
		kc := r.Intn("cachecommit", 3)
		for _, j := range perm("cachecorder")[:min(kc, len(others))] {
			pc := s.Commit(j, p)
			if amev >= 0 && r.Intn("pc", 2) == 0 {
				pc = s.PreCommit(j, p)
			}
			nd.Receive(pc)
		}
	}
	// B: some change views for view 1 delivered directly
	direct := r.Intn("directcv", M)
	for _, j := range perm("directorder")[:min(direct, len(others))] {
		nd.Receive(s.CV(j, 0, 1))
	}
	// C: a recovery message tagged with view w carrying a drawn list of change views
	w := byte(1 + r.Intn("wview", 3))
	var emb []sim.Payload
	groups := 1 + r.Intn("groups", 3)
	for g := 0; g < groups; g++ {
		ov := byte(r.Intn("origview", int(w)))
		cnt := 1 + r.Intn("groupcnt", n-1)
		for _, j := range perm("grouporder")[:min(cnt, len(others))] {
			emb = append(emb, s.CV(j, ov, ov+1+byte(r.Intn("nvjump", 2))))
		}
	}
	if r.Intn("sortviews", 2) == 0 { // honest senders pack by validator index; also try ascending target views
		for i := 1; i < len(emb); i++ {
			for j := i; j > 0 && emb[j].Body.(*vt.ChangeView).NewView < emb[j-1].Body.(*vt.ChangeView).NewView; j-- {
				emb[j], emb[j-1] = emb[j-1], emb[j]
			}
		}
	}
	sender := others[r.Intn("rmsender", len(others))]
	nd.Receive(s.Recovery(sender, w, emb...))
	if nd.D.ViewNumber > 0 {
		s.W.Stat("nested_recovery_view_changed")
	}
	if nd.D.CommitSent() || nd.D.PreCommitSent() {
		s.W.Stat("nested_recovery_locked")
	}
	// D: aftermath
	for i := 0; i < 2+r.Intn("after", 6) && len(s.W.Viols) == 0 && !nd.Crashed && !nd.D.BlockSent(); i++ {
		v := nd.D.ViewNumber
		switch r.Intn("afterkind", 6) {
		case 0:
			if nd.Timer.Pending {
				s.Fire()
			}
		case 1:
			if !nd.D.IsPrimary() && !nd.D.RequestSentOrReceived() {
				if p, ok := props[v]; ok {
					nd.Receive(p)
				} else {
					nd.Receive(s.Proposal(v, s.NextTs(), uint64(30+i)))
				}
			}
		case 2:
			if pp := nd.D.PreparationPayloads[nd.D.PrimaryIndex]; pp != nil {
				j := others[r.Intn("respfrom", len(others))]
				if j != int(nd.D.PrimaryIndex) {
					nd.Receive(s.Response(j, v, pp.Hash()))
				}
			}
		case 3:
			nd.Receive(s.CV(others[r.Intn("cvfrom", len(others))], v, v+1))
		case 4:
			nd.Receive(s.RecoveryRequest(others[r.Intn("rqfrom", len(others))], v))
		default:
			var cvs []sim.Payload
			for _, j := range perm("again")[:min(M, len(others))] {
				cvs = append(cvs, s.CV(j, v, v+1))
			}
			nd.Receive(s.Recovery(others[0], v+1, cvs...))
		}
	}
	s.W.Stat("nested_recovery")
	s.W.Finish()
	return s.W
}

// RunWatchOnlySolo drives one *flagged validator with a past*: it sits in the validator list with
// its watch-only flag set (an operator restarted it in watch-only mode), while its peers still hold
// and relay what its index sent before - its own proposal for a view it is the primary of, its own
// responses, change views and commits, alone or inside recovery messages - next to the ordinary
// traffic of the round, in any order (responses before the proposal they answer, commits before
// everything).  It must stay silent (MonC13) in every state this reaches.
func RunWatchOnlySolo(r sim.Src, mons []*sim.Mon, keepLog bool) *sim.World {
	return runPastSolo(r, mons, keepLog, true)
}

// RunRestartedSolo is the same situation without the flag: a *validator restarted with empty state* whose peers
// still hold and relay what its index sent in its previous life - its own proposal for a view it is the primary of,
// its own responses, change views, pre-commits and commits, directly or inside recovery messages, in any order - while it
// takes part again.  Such a node may find itself the primary of a view it entered through a recovery message, holding
// its own old commit and no proposal (seeded change C10m).  Only monitors that judge the node's own obligations
// (timer, panics) are attached: what it says may contradict its previous life (known finding D11).
func RunRestartedSolo(r sim.Src, mons []*sim.Mon, keepLog bool) *sim.World {
	return runPastSolo(r, mons, keepLog, false)
}

// RunRestartedSoloJudged is RunRestartedSolo with the node NOT marked faulty, for monitors that judge a node by what it
// was handed in this life only (MonC04: every response, commit and view change needs its evidence among the payloads
// delivered to this instance - its own earlier messages that peers hand back are such deliveries).
func RunRestartedSoloJudged(r sim.Src, mons []*sim.Mon, keepLog bool) *sim.World {
	w := runPastSolo(&markSrc{Src: r}, mons, keepLog, false)
	return w
}

// markSrc tells runPastSolo (through the type of its source) to leave the node unmarked.
type markSrc struct{ sim.Src }

func runPastSolo(r sim.Src, mons []*sim.Mon, keepLog bool, flagged bool) *sim.World {
	n := 1 + pick(r, "N", 5, 5, 5, 45, 10, 10, 20)
	self := r.Intn("self", n)
	tpb := []time.Duration{time.Second, 5 * time.Second}[r.Intn("tpb", 2)]
	startTip := uint32(r.Intn("tip", 40))
	switch r.Intn("role", 3) {
	case 0: // primary of view 0 at the first height
		for (int(startTip)+1)%n != self {
			startTip++
		}
	case 1: // primary of view 1
		for (int(startTip)+1+n-1)%n != self {
			startTip++
		}
	}
	amev := int64(-1)
	switch pick(r, "amev", 55, 30, 15) {
	case 1:
		amev = 0
	case 2:
		amev = int64(startTip) + 2
	}
	base := make([]int, n)
	for i := range base {
		base[i] = i
	}
	cfg := sim.Cfg{IDs: n, Validators: func(uint32) []int { return base }, ValDesc: fmt.Sprintf("const[0..%d]", n-1), StartTip: startTip,
		AMEVHeight: amev, TimePerBlock: tpb, TsIncrement: 1_000_000, Epoch: epoch0}
	if r.Intn("dyn", 4) == 0 {
		cfg.MaxTimePerBlock = tpb * 3
	}
	s := sim.NewSolo(cfg, r, self, flagged, mons, keepLog)
	if amev >= 0 {
		s.W.Stat("amev")
	}
	nd := s.N
	if !flagged {
		if _, judged := r.(*markSrc); !judged {
			nd.Faulty = true // restarted with empty state: faulty by the properties' own terms as far as its statements go
		}
		nd.PastLife = true
		s.W.Stat("restarted_solo")
	}
	for i := r.Intn("ntx", 4); i > 0; i-- {
		nd.AddTx(s.W.NewTx(false))
	}
	nd.Start()
	type key struct {
		h uint32
		v byte
	}
	pend := map[key]sim.Payload{} // the proposal of (height, view), invented once, delivered when drawn
	proposal := func() sim.Payload {
		k := key{s.H(), s.V()}
		if p, ok := pend[k]; ok {
			return p
		}
		var txs []vt.Tx
		for j := r.Intn("ptx", 3); j > 0 && j <= len(s.W.Universe); j-- {
			txs = append(txs, s.W.Universe[j-1])
		}
		if r.Intn("poisoned", 4) == 0 {
			// a proposal whose block fails the node's verification callback (the transaction is in its pool)
			tx := s.W.NewTx(true)
			nd.AddTx(tx)
			txs = append(txs, tx)
			s.W.Stat("c13_rejected_proposal")
		}
		p := s.Proposal(k.v, s.NextTs(), uint64(100+len(pend)), txs...)
		pend[k] = p
		return p
	}
	anyIdx := func(label string) int { return r.Intn(label, n) } // its own index included
	one := func(p sim.Payload) sim.Payload {
		// a payload of the round by a drawn validator, the node itself included
		i := anyIdx("author")
		switch pick(r, "kind", 30, 25, 20, 15, 10) {
		case 0:
			if i == s.Primary(s.V()) {
				return p
			}
			return s.Response(i, s.V(), p.Hash())
		case 1:
			if s.W.Cfg.AMEVOn(s.H()) && r.Intn("pcorcm", 2) == 0 {
				return s.PreCommit(i, p)
			}
			return s.Commit(i, p)
		case 2:
			return s.CV(i, s.V(), s.V()+1)
		case 3:
			return p
		}
		return s.Response(i, s.V(), p.Hash())
	}
	steps := 8 + r.Intn("steps", 50)
	for i := 0; i < steps && len(s.W.Viols) == 0 && !nd.Crashed; i++ {
		s.W.Step = i + 1
		p := proposal()
		if int(p.Idx) == nd.D.MyIndex {
			s.W.Stat("c13_own_proposal_around")
		}
		switch pick(r, "step", 40, 25, 8, 8, 7, 6, 6) {
		case 0: // one payload of the round, delivered directly
			q := one(p)
			if q.Author == nd.ID && q.T == dbft.PrepareRequestType {
				s.W.Stat("c13_own_request_delivered")
			}
			nd.Receive(q)
		case 1: // a peer's recovery message with a drawn selection of the round's payloads
			var emb []sim.Payload
			for k := 1 + r.Intn("nemb", 2*n); k > 0; k-- {
				q := one(p)
				if q.Author == nd.ID && q.T == dbft.PrepareRequestType {
					s.W.Stat("c13_own_request_delivered")
				}
				emb = append(emb, q)
			}
			if o := s.Others(); len(o) > 0 {
				nd.Receive(s.Recovery(o[r.Intn("rmfrom", len(o))], s.V(), emb...))
			}
		case 2:
			if o := s.Others(); len(o) > 0 {
				nd.Receive(s.RecoveryRequest(o[r.Intn("rqfrom", len(o))], s.V()))
			}
		case 3:
			if nd.Timer.Pending {
				if !flagged && nd.D.IsPrimary() && !nd.D.RequestSentOrReceived() && (nd.D.CommitSent() || nd.D.PreCommitSent()) {
					s.W.Stat("restarted_primary_times_out_with_own_old_commit")
				}
				s.Fire()
			} else {
				nd.Timeout(s.H(), s.V()) // the application may still call it
			}
		case 4:
			if wl := sim.Wanted(nd); len(wl) > 0 {
				h := wl[r.Intn("missing", len(wl))]
				delete(nd.Want, h)
				if tx, ok := s.W.TxByHash(h); ok {
					nd.Transaction(tx)
				}
			} else {
				nd.Transaction(s.W.NewTx(false))
			}
		case 5:
			nd.AddTx(s.W.NewTx(false))
			nd.NewTransaction()
		default:
			s.Advance(tpb * time.Duration(1+r.Intn("dt", 40)) / 10)
		}
		if nd.NeedInit && !nd.Crashed {
			nd.Reset()
			s.W.Stat("c13_solo_height")
		}
	}
	s.W.Stat("c13_solo")
	s.W.Finish()
	return s.W
}

// RunLargeCommittee (driver B): committees far larger than the worlds of driver A use (24..200 validators), the node
// under test being the speaker of EVERY height (the list rotates around it), so that within a few heights it has heard
// hundreds of backups: per-validator tables, counters and the round-trip estimator's fixed-size window are exercised
// beyond their first wrap.  Each round: the node proposes (at Start, or when its timer fires), a drawn number of
// backups (M-1 .. N-1) answer after drawn delays and in a drawn order, then commit (pre-commit first at anti-MEV
// heights); the application re-initialises.  Seeded change C17j (ring index off by one) panics here.
func RunLargeCommittee(r sim.Src, mons []*sim.Mon, keepLog bool) *sim.World {
	n := []int{24, 40, 64, 70, 71, 72, 73, 100, 141, 200}[r.Intn("N", 10)]
	self := r.Intn("self", n)
	tpb := []time.Duration{time.Second, 5 * time.Second, 15 * time.Second}[r.Intn("tpb", 3)]
	startTip := uint32(r.Intn("tip", 50))
	amev := int64(-1)
	if r.Intn("amev", 3) == 0 {
		amev = 0
	}
	cfg := sim.Cfg{IDs: n, ValDesc: fmt.Sprintf("%d validators, rotated so that identity %d is the speaker of every height", n, self), StartTip: startTip,
		AMEVHeight: amev, TimePerBlock: tpb, TsIncrement: 1_000_000, Epoch: epoch0}
	cfg.Validators = func(h uint32) []int {
		p := int(h % uint32(n)) // index of the speaker of view 0
		out := make([]int, n)
		for i := range out {
			out[i] = ((self+i-p)%n + n) % n
		}
		return out
	}
	s := sim.NewSolo(cfg, r, self, false, mons, keepLog)
	nd := s.N
	nd.TipTs = uint64(epoch0.UnixNano()) - uint64(tpb)
	for i, k := 0, r.Intn("ntx", 4); i < k; i++ {
		nd.AddTx(s.W.NewTx(false))
	}
	s.W.Stat(fmt.Sprintf("N=%d", n))
	nd.Start()
	rounds := 1 + r.Intn("rounds", 6)
	M := n - (n-1)/3
	for round := 0; round < rounds && len(s.W.Viols) == 0 && !nd.Crashed; round++ {
		d := nd.D
		if !d.IsPrimary() {
			s.W.Stat("large_not_speaker") // cannot happen with the rotating list
			break
		}
		for tries := 0; tries < 3 && s.LastOwn(dbft.PrepareRequestType) == nil && nd.Timer.Pending && !nd.Crashed; tries++ {
			s.Fire()
		}
		pp := s.LastOwn(dbft.PrepareRequestType)
		if pp == nil || nd.Crashed {
			break
		}
		// a drawn number of backups, in a drawn rotation of the list
		others := s.Others()
		k := M - 1 + r.Intn("answering", n-M+1)
		off := r.Intn("answeroff", len(others))
		var who []int
		for i := 0; i < k && i < len(others); i++ {
			who = append(who, others[(off+i)%len(others)])
		}
		step := time.Duration(r.Intn("rttstep", 40)) * time.Millisecond / 8
		for _, j := range who {
			if nd.Crashed || len(s.W.Viols) > 0 {
				break
			}
			s.Advance(step)
			nd.Receive(s.Response(j, d.ViewNumber, pp.Hash()))
			s.W.Stat("large_response")
		}
		if s.W.Cfg.AMEVOn(d.BlockIndex) {
			for _, j := range who {
				if nd.Crashed || d.BlockSent() || len(s.W.Viols) > 0 {
					break
				}
				nd.Receive(s.PreCommit(j, pp))
			}
		}
		for _, j := range who {
			if nd.Crashed || d.BlockSent() || len(s.W.Viols) > 0 {
				break
			}
			nd.Receive(s.Commit(j, pp))
		}
		if !nd.NeedInit {
			break
		}
		s.W.Stat("large_round_decided")
		s.Advance(time.Duration(r.Intn("resetlag", 20)) * time.Millisecond)
		nd.Reset()
	}
	s.W.Finish()
	return s.W
}

// RunResetOverEarlyTraffic (driver B): while the node sits at one height its peers are already one to three heights
// ahead and changing view there - their change views (and possibly the proposal and responses of the view they are
// heading for) reach the node early and are kept aside.  Then its application catches up through the ledger and
// calls Reset once: the kept change views carry the node beyond view 0 *inside* Reset, possibly into a view in which
// its role differs from the one it had in view 0 (seeded change C05m).  A drawn aftermath follows.
func RunResetOverEarlyTraffic(r sim.Src, mons []*sim.Mon, keepLog bool) *sim.World {
	n := 4 + pick(r, "N", 50, 10, 10, 30)
	self := r.Intn("self", n)
	tpb := []time.Duration{time.Second, 5 * time.Second, 15 * time.Second}[r.Intn("tpb", 3)]
	k := 1 + pick(r, "skip", 25, 50, 25)
	nv := byte(1 + pick(r, "nv", 70, 30))
	startTip := uint32(r.Intn("tip", 30))
	switch r.Intn("role", 3) {
	case 0: // primary of view 0 at the height it lands on
		for int(startTip+1+uint32(k))%n != self {
			startTip++
		}
	case 1: // primary of the view the early change views ask for
		for (int(startTip+1+uint32(k))+n*8-int(nv))%n != self {
			startTip++
		}
	}
	amev := int64(-1)
	if r.Intn("amev", 3) == 0 {
		amev = 0
	}
	base := make([]int, n)
	for i := range base {
		base[i] = i
	}
	cfg := sim.Cfg{IDs: n, Validators: func(uint32) []int { return base }, ValDesc: fmt.Sprintf("const[0..%d]", n-1), StartTip: startTip,
		AMEVHeight: amev, TimePerBlock: tpb, TsIncrement: 1_000_000, Epoch: epoch0}
	s := sim.NewSolo(cfg, r, self, false, mons, keepLog)
	nd := s.N
	nd.Start()
	H := s.H() + uint32(k)
	M := n - (n-1)/3
	others := s.Others()
	rot := r.Intn("cvrot", len(others))
	cnt := M - 1 + r.Intn("cvcount", n-M+1) // M-1 .. N-1 early change views
	noise := func() {
		switch r.Intn("noise", 4) {
		case 0:
			s.Advance(tpb * time.Duration(1+r.Intn("dt", 30)) / 10)
		case 1:
			if nd.Timer.Pending {
				s.Fire()
			}
		case 2:
			if !nd.D.IsPrimary() && !nd.D.RequestSentOrReceived() && !nd.D.BlockSent() {
				nd.Receive(s.Proposal(s.V(), s.NextTs(), uint64(7)))
			}
		}
	}
	for i := 0; i < cnt && i < len(others); i++ {
		j := others[(i+rot)%len(others)]
		to := nv
		if r.Intn("cvhigher", 5) == 0 {
			to++
		}
		nd.Receive(s.At(H, dbft.ChangeViewType, j, 0, &vt.ChangeView{NewView: to, R: dbft.CVTimeout, Ts: uint64(nd.Now().UnixNano())}))
		if r.Intn("interleave", 4) == 0 {
			noise()
		}
	}
	if p := (int(H)+n*8-int(nv))%n; p != self && r.Intn("earlyprop", 2) == 0 {
		// the proposal of the view they are heading for, and some responses to it
		pr := s.At(H, dbft.PrepareRequestType, p, nv, &vt.PrepareRequest{Ts: nd.TipTs + uint64(k+1)*cfg.TsIncrement, N: 5})
		nd.Receive(pr)
		for i := r.Intn("earlyresp", n); i > 0; i-- {
			if j := others[i%len(others)]; j != p {
				nd.Receive(s.At(H, dbft.PrepareResponseType, j, nv, &vt.PrepareResponse{Prep: pr.Hash()}))
			}
		}
		s.W.Stat("early_proposal_of_target_view")
	}
	for i := r.Intn("noisesteps", 4); i > 0; i-- {
		noise()
	}
	if nd.Crashed || len(s.W.Viols) > 0 {
		s.W.Finish()
		return s.W
	}
	s.Sync(k)
	if s.V() > 0 {
		s.W.Stat("view_entered_inside_reset")
		if (int(H)%n == self) != nd.D.IsPrimary() {
			s.W.Stat("role_differs_from_view_0")
		}
	}
	for i := r.Intn("aftermath", 5); i > 0 && !nd.Crashed && len(s.W.Viols) == 0; i-- {
		noise()
		if nd.NeedInit && !nd.Crashed {
			nd.Reset()
		}
	}
	s.W.Stat("reset_over_early_traffic")
	s.W.Finish()
	return s.W
}

// RunSilencedCommitted (driver B): the node commits itself in some view, then its operator sets its watch-only flag;
// while it is silent its peers change view and it follows them with its commit stored; the flag is cleared again and the
// round of the new view (in which it may be the primary) plays out with timeouts in between.  Whatever happens, it must
// never produce a second, different commit or pre-commit at the height (MonC03Signatures; seeded change C01m).
func RunSilencedCommitted(r sim.Src, mons []*sim.Mon, keepLog bool) *sim.World {
	n := 4 + pick(r, "N", 50, 10, 10, 30)
	self := r.Intn("self", n)
	tpb := []time.Duration{time.Second, 5 * time.Second}[r.Intn("tpb", 2)]
	startTip := uint32(r.Intn("tip", 30))
	for (int(startTip)+1)%n == self { // a backup in view 0
		startTip++
	}
	if r.Intn("primarynext", 2) == 0 {
		for (int(startTip)+1)%n == self || (int(startTip)+n)%n != self { // ... and the primary of view 1
			startTip++
		}
	}
	amev := int64(-1)
	if r.Intn("amev", 3) == 0 {
		amev = 0
	}
	base := make([]int, n)
	for i := range base {
		base[i] = i
	}
	cfg := sim.Cfg{IDs: n, Validators: func(uint32) []int { return base }, ValDesc: fmt.Sprintf("const[0..%d]", n-1), StartTip: startTip,
		AMEVHeight: amev, TimePerBlock: tpb, TsIncrement: 1_000_000, Epoch: epoch0}
	if r.Intn("salted", 2) == 0 {
		cfg.SaltedSigs = true
	}
	s := sim.NewSolo(cfg, r, self, false, mons, keepLog)
	nd := s.N
	nd.AddTx(s.W.NewTx(false))
	nd.Start()
	M := n - (n-1)/3
	others := s.Others()
	// view 0: the proposal and M-1 responses - the node answers and commits itself (pre-commits under anti-MEV)
	p0 := s.Proposal(0, s.NextTs(), 11)
	nd.Receive(p0)
	cnt := 0
	for _, j := range others {
		if j != s.Primary(0) && cnt < M-2 {
			nd.Receive(s.Response(j, 0, p0.Hash()))
			cnt++
		}
	}
	if amev >= 0 && r.Intn("fullprecommit", 2) == 0 {
		for i, j := range others { // M-1 pre-commits of the others: the node goes on to its commit
			if i < M-1 {
				nd.Receive(s.PreCommit(j, p0))
			}
		}
	}
	locked := nd.D.CommitPayloads[nd.D.MyIndex] != nil || nd.D.PreCommitPayloads[nd.D.MyIndex] != nil
	if !locked || nd.D.BlockSent() || nd.Crashed {
		s.W.Finish()
		return s.W
	}
	s.W.Stat("silenced_committed_locked")
	nd.WatchFlag = true // the operator silences it
	s.W.Stat("watch_flag_set_on_committed_node")
	for i, j := range others { // the others give up on view 0
		if i < M {
			nd.Receive(s.CV(j, 0, 1))
		}
	}
	if r.Intn("timeoutwhilesilent", 2) == 0 {
		nd.Timeout(s.H(), s.V())
	}
	nd.WatchFlag = false // ... and re-enables it
	if s.V() > 0 {
		s.W.Stat("silenced_node_followed_view_change")
	}
	var p1 sim.Payload
	for i := 4 + r.Intn("aftermath", 12); i > 0 && !nd.Crashed && len(s.W.Viols) == 0 && !nd.D.BlockSent(); i-- {
		v := s.V()
		switch r.Intn("after", 6) {
		case 0:
			if nd.Timer.Pending {
				s.Fire()
			} else {
				nd.Timeout(s.H(), v) // no timer was armed while it was silent: the application may still call it
			}
		case 1:
			if !nd.D.IsPrimary() && v > 0 {
				if p1 == nil || p1.V != v {
					p1 = s.Proposal(v, s.NextTs(), uint64(20+i))
				}
				nd.Receive(p1)
			}
		case 2:
			if pp := nd.D.PreparationPayloads[nd.D.PrimaryIndex]; pp != nil && pp.Type() == dbft.PrepareRequestType {
				j := others[r.Intn("resp", len(others))]
				if j != int(nd.D.PrimaryIndex) {
					nd.Receive(s.Response(j, v, pp.Hash()))
				}
			}
		case 3:
			if pp := nd.D.PreparationPayloads[nd.D.PrimaryIndex]; pp != nil && pp.Type() == dbft.PrepareRequestType {
				j := others[r.Intn("cm", len(others))]
				if s.W.Cfg.AMEVOn(s.H()) && r.Intn("pcorcm", 2) == 0 {
					nd.Receive(s.PreCommit(j, pp.(*vt.Payload)))
				} else {
					nd.Receive(s.Commit(j, pp.(*vt.Payload)))
				}
			}
		case 4:
			nd.Receive(s.RecoveryRequest(others[r.Intn("rq", len(others))], v))
		default:
			s.Advance(tpb * time.Duration(1+r.Intn("dt", 30)) / 10)
		}
	}
	s.W.Stat("silenced_committed")
	s.W.Finish()
	return s.W
}
