// Package props holds the rapid properties, fuzz targets and replay tests,
// one file per listed property, plus the shared driver glue: seeding, case
// statistics, trace files and known-finding handling.
package props

import (
	"bufio"
	"encoding/json"
	"fmt"
	"hash/fnv"
	"os"
	"path/filepath"
	"sort"
	"strconv"
	"strings"
	"sync"
	"testing"

	"github.com/nspcc-dev/dbft/verifharness/sim"
	"pgregory.net/rapid"
)

// RapidSrc adapts rapid draws to sim.Src and records the stream.
type RapidSrc struct {
	T   *rapid.T
	Rec []int
}

var (
	genMu  sync.Mutex
	genMap = map[int]*rapid.Generator[int]{}
)

func intGen(n int) *rapid.Generator[int] {
	genMu.Lock()
	defer genMu.Unlock()
	g := genMap[n]
	if g == nil {
		g = rapid.IntRange(0, n-1)
		genMap[n] = g
	}
	return g
}

func (s *RapidSrc) Intn(label string, n int) int {
	if n <= 1 {
		return 0
	}
	v := intGen(n).Draw(s.T, label)
	s.Rec = append(s.Rec, v)
	return v
}

// ReplaySrc feeds a recorded stream back; when exhausted it returns zeros.
type ReplaySrc struct {
	Vals []int
	pos  int
	Over bool
}

func (s *ReplaySrc) Intn(label string, n int) int {
	if n <= 1 {
		return 0
	}
	if s.pos >= len(s.Vals) {
		s.Over = true
		return 0
	}
	v := s.Vals[s.pos]
	s.pos++
	if v >= n || v < 0 {
		v = ((v % n) + n) % n
	}
	return v
}

// BytesSrc decodes fuzz bytes into choices.
type BytesSrc struct {
	B   []byte
	pos int
}

func (s *BytesSrc) Intn(label string, n int) int {
	if n <= 1 {
		return 0
	}
	if s.pos >= len(s.B) {
		return 0
	}
	v := int(s.B[s.pos])
	s.pos++
	if n > 256 && s.pos < len(s.B) {
		v = v<<8 | int(s.B[s.pos])
		s.pos++
	}
	return v % n
}

// ---- per-process statistics --------------------------------------------------

// Finding is one violation seen by this process.
type Finding struct {
	Prop   string `json:"prop"`
	Key    string `json:"key"`
	Msg    string `json:"msg"`
	Replay string `json:"replay"`
	Known  bool   `json:"known"`
}

// Stats is what one shard reports to the runner.
type Stats struct {
	Prop         string         `json:"prop"`
	Shard        int            `json:"shard"`
	Seed         uint64         `json:"seed"`
	Evaluations  int            `json:"evaluations"`
	Nontrivial   []uint64       `json:"nontrivial"`
	Classes      map[string]int `json:"classes"`
	Samples      []any          `json:"samples"`
	Findings     []Finding      `json:"findings"`
	KnownHits    map[string]int `json:"known_hits"`
	Excluded     int            `json:"excluded_by_construction"`
	Inconclusive int            `json:"inconclusive"`
	Exhaustive   bool           `json:"exhaustive,omitempty"`
	Bulk         int            `json:"bulk_nontrivial"` // distinct non-trivial cases counted in bulk (distinct by construction)
	Extra        map[string]any `json:"extra,omitempty"`

	ntSet map[uint64]struct{}
	mu    sync.Mutex
}

// Env is the process-wide context of a check run.
type Env struct {
	Prop   string
	OutDir string // where traces and stats go
	Shard  int
	Known  map[string]bool // open known-finding keys "<prop>/<key>"
	Avoid  bool            // this shard avoids known-finding shapes by construction
	Tier   string
	Scale  int // VERIF_SCALE: size multiplier (thorough)
	S      *Stats
}

var (
	envOnce sync.Once
	env     *Env
)

// GetEnv reads VERIF_* variables.
func GetEnv(prop string) *Env {
	envOnce.Do(func() {
		e := &Env{Prop: prop, Known: map[string]bool{}}
		e.OutDir = os.Getenv("VERIF_OUT")
		if e.OutDir == "" {
			e.OutDir = filepath.Join(os.TempDir(), "verif-out")
		}
		_ = os.MkdirAll(e.OutDir, 0o755)
		e.Shard, _ = strconv.Atoi(os.Getenv("VERIF_SHARD"))
		e.Tier = os.Getenv("VERIF_TIER")
		if e.Tier == "" {
			e.Tier = "quick"
		}
		e.Scale, _ = strconv.Atoi(os.Getenv("VERIF_SCALE"))
		if e.Scale <= 0 {
			e.Scale = 1
		}
		e.Avoid = os.Getenv("VERIF_AVOID_KNOWN") == "1"
		if kf := os.Getenv("VERIF_KNOWN"); kf != "" {
			if f, err := os.Open(kf); err == nil {
				sc := bufio.NewScanner(f)
				for sc.Scan() {
					line := strings.TrimSpace(sc.Text())
					if !strings.HasPrefix(line, "KNOWN-FINDING:") {
						continue
					}
					var p, k string
					for _, fld := range strings.Fields(line) {
						if strings.HasPrefix(fld, "property=") {
							p = strings.TrimPrefix(fld, "property=")
						}
						if strings.HasPrefix(fld, "key=") {
							k = strings.TrimPrefix(fld, "key=")
						}
					}
					if p != "" && k != "" {
						e.Known[p+"/"+k] = true
					}
				}
				f.Close()
			}
		}
		for k := range e.Known {
			sim.KnownKeys[k] = true
		}
		seed, _ := strconv.ParseUint(os.Getenv("VERIF_SHARD_SEED"), 10, 64)
		e.S = &Stats{Prop: prop, Shard: e.Shard, Seed: seed, Nontrivial: []uint64{}, Samples: []any{}, Findings: []Finding{}, Classes: map[string]int{}, KnownHits: map[string]int{}, ntSet: map[uint64]struct{}{}}
		env = e
	})
	return env
}

// Flush writes the shard statistics.
func (e *Env) Flush() {
	s := e.S
	s.mu.Lock()
	defer s.mu.Unlock()
	s.Nontrivial = []uint64{}
	for k := range s.ntSet {
		s.Nontrivial = append(s.Nontrivial, k)
	}
	sort.Slice(s.Nontrivial, func(i, j int) bool { return s.Nontrivial[i] < s.Nontrivial[j] })
	b, _ := json.Marshal(s)
	_ = os.WriteFile(filepath.Join(e.OutDir, fmt.Sprintf("stats-%s-%d.json", e.Prop, e.Shard)), b, 0o644)
}

// FPInts is the 64-bit fingerprint of a choice stream.
func FPInts(v []int) uint64 {
	h := fnv.New64a()
	var b [4]byte
	for _, x := range v {
		b[0], b[1], b[2], b[3] = byte(x), byte(x>>8), byte(x>>16), byte(x>>24)
		h.Write(b[:])
	}
	return h.Sum64()
}

// FPString is the 64-bit fingerprint of a string.
func FPString(s string) uint64 {
	h := fnv.New64a()
	h.Write([]byte(s))
	return h.Sum64()
}

// Case records one evaluated case.
func (e *Env) Case(fp uint64, nontrivial bool, classes map[string]int, sample func() any) {
	s := e.S
	s.mu.Lock()
	defer s.mu.Unlock()
	s.Evaluations++
	for k, v := range classes {
		if v > 0 {
			s.Classes[k]++
		}
	}
	if nontrivial {
		if _, ok := s.ntSet[fp]; !ok {
			s.ntSet[fp] = struct{}{}
			if len(s.Samples) < 3 && sample != nil {
				s.Samples = append(s.Samples, sample())
			}
		}
	}
}

// traceBest keeps the smallest failing trace per (prop,key).
var traceBest = map[string]int{}

// Report handles the violations of one world run. It returns a non-empty
// message if the case must fail (an unknown violation of this check's property).
func (e *Env) Report(w *sim.World, rec []int, rerender func() string) string {
	if len(w.KnownHits) > 0 {
		e.S.mu.Lock()
		for id, c := range w.KnownHits {
			if strings.HasPrefix(id, e.Prop+"/") {
				e.S.KnownHits[strings.TrimPrefix(id, e.Prop+"/")] += c
			}
		}
		e.S.mu.Unlock()
	}
	if len(w.Viols) == 0 {
		return ""
	}
	var fatal string
	for _, v := range w.Viols {
		if v.Prop != e.Prop {
			// a monitor of another property fired inside a shared world: not this check's business
			e.S.mu.Lock()
			e.S.Classes["other_property_"+v.Prop]++
			e.S.mu.Unlock()
			continue
		}
		id := v.Prop + "/" + v.Key
		if e.Known[id] {
			e.S.mu.Lock()
			e.S.KnownHits[v.Key]++
			e.S.mu.Unlock()
			continue
		}
		size := len(rec)
		e.S.mu.Lock()
		best, seen := traceBest[id]
		e.S.mu.Unlock()
		path := filepath.Join(e.OutDir, fmt.Sprintf("%s-%s-shard%d.trace", v.Prop, sanitize(v.Key), e.Shard))
		if !seen || size <= best {
			body := ""
			if rerender != nil {
				body = rerender()
			}
			hdr := fmt.Sprintf("property=%s\nkey=%s\nmessage=%s\nstream=%s\n", v.Prop, v.Key, strings.ReplaceAll(v.Msg, "\n", " | "), intsToString(rec))
			_ = os.WriteFile(path, []byte(hdr+"----\n"+body), 0o644)
			e.S.mu.Lock()
			traceBest[id] = size
			found := false
			for i := range e.S.Findings {
				if e.S.Findings[i].Prop == v.Prop && e.S.Findings[i].Key == v.Key {
					e.S.Findings[i].Msg, e.S.Findings[i].Replay = v.Msg, path
					found = true
				}
			}
			if !found {
				e.S.Findings = append(e.S.Findings, Finding{Prop: v.Prop, Key: v.Key, Msg: v.Msg, Replay: path})
			}
			e.S.mu.Unlock()
		}
		if fatal == "" {
			fatal = fmt.Sprintf("%s [%s]: %s", v.Prop, v.Key, v.Msg)
		}
	}
	return fatal
}

func sanitize(s string) string {
	var sb strings.Builder
	for _, r := range s {
		if (r >= 'a' && r <= 'z') || (r >= 'A' && r <= 'Z') || (r >= '0' && r <= '9') || r == '-' {
			sb.WriteRune(r)
		} else {
			sb.WriteByte('_')
		}
	}
	return sb.String()
}

func intsToString(v []int) string {
	var sb strings.Builder
	for i, x := range v {
		if i > 0 {
			sb.WriteByte(',')
		}
		sb.WriteString(strconv.Itoa(x))
	}
	return sb.String()
}

// Regress is the scenario name found by the last ParseStream call (if any).
var Regress string

// ParseStream reads the "stream=" line of a trace file.
func ParseStream(path string) (prop, key string, vals []int, err error) {
	b, err := os.ReadFile(path)
	if err != nil {
		return "", "", nil, err
	}
	for _, line := range strings.Split(string(b), "\n") {
		if line == "----" {
			break
		}
		switch {
		case strings.HasPrefix(line, "property="):
			prop = strings.TrimPrefix(line, "property=")
		case strings.HasPrefix(line, "key="):
			key = strings.TrimPrefix(line, "key=")
		case strings.HasPrefix(line, "regress="):
			Regress = strings.TrimPrefix(line, "regress=")
		case strings.HasPrefix(line, "stream="):
			s := strings.TrimPrefix(line, "stream=")
			if s == "" {
				continue
			}
			for _, f := range strings.Split(s, ",") {
				x, e := strconv.Atoi(strings.TrimSpace(f))
				if e != nil {
					return prop, key, nil, e
				}
				vals = append(vals, x)
			}
		}
	}
	return prop, key, vals, nil
}

// Checks returns the number of rapid cases this shard should run
// (VERIF_CASES overrides the default).
func Checks(def int) int {
	if s := os.Getenv("VERIF_CASES"); s != "" {
		if n, err := strconv.Atoi(s); err == nil && n > 0 {
			return n
		}
	}
	return def
}

// SkipUnlessSelected makes `go test ./props` without VERIF_PROP a no-op for
// the heavy properties (they are driven by bin/check).
func SkipUnlessSelected(t *testing.T, prop string) {
	if p := os.Getenv("VERIF_PROP"); p != prop {
		t.Skipf("VERIF_PROP=%q, this is %s", p, prop)
	}
}

// replayers re-execute a recorded choice stream for a property without rapid
// (several families may serve one property; all are tried).
var replayers = map[string][]func(vals []int, keepLog bool) *sim.World{}

func regSafety(prop string, mk func() []*sim.Mon, sh Shape) {
	replayers[prop] = append(replayers[prop], func(vals []int, keepLog bool) *sim.World {
		return RunSafety(&ReplaySrc{Vals: vals}, mk(), keepLog, sh)
	})
}

// LabelSrc answers every draw with a fixed value per label (default 0): for hand-written scenarios.
type LabelSrc map[string]int

func (s LabelSrc) Intn(label string, n int) int {
	if n <= 1 {
		return 0
	}
	return s[label] % n
}

// Bulk records many evaluated cases at once (enumerations); nontrivial are distinct by construction.
func (e *Env) BulkCases(evals, nontrivial int, class string) {
	s := e.S
	s.mu.Lock()
	defer s.mu.Unlock()
	s.Evaluations += evals
	s.Bulk += nontrivial
	if class != "" {
		s.Classes[class] += evals
	}
}

// Sample appends a sample case (up to 4 are kept).
func (e *Env) Sample(x any) {
	s := e.S
	s.mu.Lock()
	defer s.mu.Unlock()
	if len(s.Samples) < 4 {
		s.Samples = append(s.Samples, x)
	}
}

// Violation records a violation found outside a world run.
func (e *Env) Violation(key, msg, replayBody string) {
	s := e.S
	path := filepath.Join(e.OutDir, fmt.Sprintf("%s-%s-shard%d.trace", e.Prop, sanitize(key), e.Shard))
	_ = os.WriteFile(path, []byte(fmt.Sprintf("property=%s\nkey=%s\nmessage=%s\n%s\n", e.Prop, key, strings.ReplaceAll(msg, "\n", " | "), replayBody)), 0o644)
	s.mu.Lock()
	defer s.mu.Unlock()
	if e.Known[e.Prop+"/"+key] {
		s.KnownHits[key]++
		return
	}
	for _, f := range s.Findings {
		if f.Key == key {
			return
		}
	}
	s.Findings = append(s.Findings, Finding{Prop: e.Prop, Key: key, Msg: msg, Replay: path})
}
