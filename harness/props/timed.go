package props

import (
	"fmt"
	"time"

	"github.com/nspcc-dev/dbft/verifharness/sim"
	"github.com/nspcc-dev/dbft/verifharness/vt"
	"pgregory.net/rapid"
)

// TimedShape selects the family of timed worlds.
type TimedShape struct {
	Kind string // c08, c09, c13, c16
	MaxN int
}

// drawCut draws one healed partition: at an absolute instant, or triggered by an event of a drawn
// node (right before its k-th timeout / right after its k-th broadcast), isolating that node or a drawn subset.
func drawCut(r sim.Src, ids, n int, tpb time.Duration, maxAt, maxDurQuarters int) []sim.Sched {
	var set []int
	mask := 1 + r.Intn("cutmask", (1<<uint(min(ids, 8)))-2)
	for i := 0; i < ids; i++ {
		if mask&(1<<uint(i%8)) != 0 {
			set = append(set, i)
		}
	}
	dur := tpb * time.Duration(1+r.Intn("cutdur", maxDurQuarters)) / 4
	if r.Intn("cuttrig", 2) == 0 {
		at := tpb * time.Duration(r.Intn("cutat", maxAt)) / 10
		return []sim.Sched{{At: at, Kind: "cut", Set: set}, {At: at + dur, Kind: "heal"}}
	}
	x := r.Intn("trignode", n)
	if r.Intn("trigsolo", 3) > 0 {
		set = []int{x} // the node whose event triggers the cut is the one cut off
	}
	kind := []string{"before-timeout", "after-broadcast"}[r.Intn("trigkind", 2)]
	return []sim.Sched{{Kind: "cut", Set: set, Trig: kind, TrigNode: x, TrigCount: 1 + r.Intn("trigcount", 5), Dur: dur, KeepInFlight: r.Intn("keepflight", 2) == 0}}
}

func drawEpoch(r sim.Src) time.Time {
	// clocks decades apart, not aligned to the increment
	base := []int64{1_704_067_200, 946_684_800, 4_102_444_800, 1_000_000_000}[r.Intn("epochbase", 4)]
	return time.Unix(base, int64(r.Intn("epochns", 1000))*1_000_003).UTC()
}

// drawPhaseSkew: whole phases of a round reach the chosen nodes in a drawn order (e.g. every commit
// before the last pre-commit, the responses last), the other links being fast.
func drawPhaseSkew(r sim.Src, ids int) map[int][4]int {
	ps := map[int][4]int{}
	mask := 1 + r.Intn("skewmask", (1<<uint(min(ids, 8)))-1)
	for i := 0; i < ids; i++ {
		if mask&(1<<uint(i%8)) != 0 {
			perm := [4]int{0, 1, 2, 3}
			for k := 3; k > 0; k-- {
				j := r.Intn("skewperm", k+1)
				perm[k], perm[j] = perm[j], perm[k]
			}
			ps[i] = perm
		}
	}
	return ps
}

// RunTimed draws a configuration of the requested family and runs it.
func RunTimedWorld(r sim.Src, mons []*sim.Mon, keepLog bool, sh TimedShape) *sim.World {
	maxN := sh.MaxN
	if maxN == 0 {
		maxN = 7
	}
	var n int
	switch sh.Kind {
	case "c09", "c13":
		n = 4 + pick(r, "N", 40, 10, 10, 30, 4, 3, 3)
		if n > maxN {
			n = 4 + (n-4)%(maxN-3)
		}
	default:
		n = 1 + pick(r, "N", 5, 4, 6, 35, 10, 10, 30)
	}
	F := (n - 1) / 3
	tpb := []time.Duration{time.Second, 5 * time.Second, 15 * time.Second}[r.Intn("tpb", 3)]
	lat := tpb / time.Duration([]int{1000, 100, 50, 20}[r.Intn("latdiv", 4)])
	amev := int64(-1)
	startTip := []uint32{1, 2, 7, 100, 1000003}[r.Intn("tip", 5)]
	if sh.Kind == "c08" && r.Intn("genesis", 4) == 0 {
		startTip = 0
	}
	switch pick(r, "amev", 50, 35, 15) {
	case 1:
		amev = 0
	case 2:
		amev = int64(startTip) + 2
	}
	ids := n
	watch := map[int]bool{}
	if r.Intn("observer", 4) == 0 {
		ids++
	}
	// committee rotation (fault-free worlds only): n+1 honest identities, one of them rests at every height - Y at the
	// first height, X for the next one or two, then Y again - so X takes part, sits out as a mere observer while the
	// ledger advances, and returns with another index.  Everybody is honest and synchronous all along.
	rotate := (sh.Kind == "c08" || sh.Kind == "c16") && r.Intn("rotate", 5) == 0
	if rotate {
		ids = n + 1
	}
	cfg := sim.Cfg{IDs: ids, ValDesc: fmt.Sprintf("const[0..%d]", n-1), StartTip: startTip, AMEVHeight: amev,
		TimePerBlock: tpb, TsIncrement: []uint64{1_000_000, 1, 1_000_000_000}[pick(r, "inc", 70, 15, 15)], Epoch: drawEpoch(r)}
	base := make([]int, n)
	for i := range base {
		base[i] = i
	}
	cfg.Validators = func(uint32) []int { return base }
	if rotate {
		x := r.Intn("rotx", ids)
		y := (x + 1 + r.Intn("roty", ids-1)) % ids
		k := 1 + r.Intn("rotk", 2)
		lists := map[int][]int{}
		for _, rest := range []int{x, y} {
			for i := 0; i < ids; i++ {
				if i != rest {
					lists[rest] = append(lists[rest], i)
				}
			}
		}
		cfg.ValDesc = fmt.Sprintf("rotating: %d of %d, identity %d rests at the first height and from the %dth on, identity %d in between", n, ids, y, k+2, x)
		cfg.Validators = func(h uint32) []int {
			if i := int(h) - int(startTip) - 1; i >= 1 && i <= k {
				return lists[x]
			}
			return lists[y]
		}
	}
	o := sim.TimedOpts{MaxLat: lat, ResetLag: lat * time.Duration(r.Intn("resetlag", 3)), MaxEvents: 60000}
	maxView := -1
	var phaseSkew map[int][4]int
	lateTx := false
	atMin := false
	switch sh.Kind {
	case "c08":
		cfg.HonourStopTxFlow = true
		slowRound := r.Intn("slowround", 3) == 0
		if slowRound {
			// slow but still synchronous rounds: three hops fit well inside one block time,
			// yet a proposal of the next height can overtake the tail of the previous one
			o.MaxLat = tpb / time.Duration(6+r.Intn("slowdiv", 6))
			o.ResetLag = o.MaxLat * time.Duration(r.Intn("resetlag2", 3)) / 2
		}
		// (not with a rotating committee: an identity that rested has no reference instant of the previous round, so as the
		// next primary it waits a full block time from its own - late - Reset and its backups time out first: the
		// generator, not the library, would break synchrony)
		if !slowRound && !rotate && r.Intn("slowapp", 2) == 0 {
			// slow applications: Reset follows the accepted block only after up to 1.1 block times,
			// so the next height's traffic reaches the node before it has entered that height
			o.SlowApp = map[int]bool{}
			mask := 1 + r.Intn("slowmask", (1<<uint(min(ids, 8)))-1)
			for i := 0; i < ids; i++ {
				if mask&(1<<uint(i%8)) != 0 {
					o.SlowApp[i] = true
				}
			}
			o.SlowLag = tpb * 11 / 10
		}
		if r.Intn("phaseskew", 3) == 0 {
			phaseSkew = drawPhaseSkew(r, ids)
		}
		if rotate {
			// the phases of a round reach everybody in their natural order: a resting identity has to follow the chain
			// from the consensus traffic alone, and an observer that gets the commits before the proposal is not
			// re-triggered (see MonC08)
			phaseSkew = map[int][4]int{}
			for i := 0; i < ids; i++ {
				phaseSkew[i] = [4]int{0, 1, 2, 3}
			}
		}
		txLag := r.Intn("txlag", 3) == 0 // the pools differ: backups have to ask for proposed transactions and are handed them promptly
		if rotate {
			txLag = false // a resting identity that lacks a proposed transaction never completes the block (OnTransaction is for backups)
		}
		o.Heights = 3 + r.Intn("heights", 4)
		o.DupPct = []int{0, 10, 40}[r.Intn("dup", 3)]
		o.Horizon = time.Duration(o.Heights+3) * tpb * 3
		if r.Intn("dyn", 3) == 0 {
			cfg.MaxTimePerBlock = tpb * 2
			o.InitialTxs = 40 // pools never run dry: the extension must stay invisible
		} else {
			o.InitialTxs = r.Intn("inittx", 3)
			if txLag {
				// (not together with the extension: a primary whose pool is empty waits for the maximum while
				// backups that hold transactions do not - pools that differ for good are not a synchronous network)
				o.TxLag = true
				o.InitialTxs += 1 + r.Intn("lagtx", 6)
				if r.Intn("foreigntx", 2) == 0 {
					o.ForeignTxPct = 40
				}
			}
		}
	case "c16":
		cfg.HonourStopTxFlow = true
		o.Heights = 3 + r.Intn("heights", 3)
		ratio := []int{2, 3, 4, 6, 16}[r.Intn("ratio", 5)] // MaxTimePerBlock / TimePerBlock in halves
		if r.Intn("dynoff", 6) == 0 {
			ratio = 0
		}
		cfg.MaxTimePerBlock = tpb * time.Duration(ratio) / 2
		cfg.SubscribeProbe = ratio == 0 // extension off: the application may still have its subscription callback in place
		o.Horizon = time.Duration(o.Heights+2) * (cfg.MaxTimePerBlock + 2*tpb)
		o.MaxLat = tpb / 50
		o.ResetLag = 0
		// new transactions reach the pools one by one within a latency (2/3), and one may land in a pool while its
		// owner is registering the subscription (1/2: 25% per subscription)
		o.TxJitter = r.Intn("txjitter", 3) != 0
		o.TxAvoidGap, o.TxAvoidWin = 2*tpb, 4*o.MaxLat
		if r.Intn("landonsub", 2) == 0 {
			o.LandOnSubscribePct = 25
		}
		if r.Intn("rightaftersub", 3) == 0 {
			o.RightAfterSubscribePct = 20
		}
		if rotate {
			// committee rotation on the idle chain (seeded change C16m: a returning identity's first timer): as in C08's
			// rotation worlds the resting identity has to follow the chain from consensus traffic alone, so the phases of
			// a round arrive in their natural order and every pool gets a new transaction at the same instant
			o.TxJitter, o.LandOnSubscribePct, o.RightAfterSubscribePct = false, 0, 0
			phaseSkew = map[int][4]int{}
			for i := 0; i < ids; i++ {
				phaseSkew[i] = [4]int{0, 1, 2, 3}
			}
		}
		// transaction arrivals: never / before the minimum / during the extended wait
		all := make([]int, ids)
		for i := range all {
			all[i] = i
		}
		// per height one arrival class, anchored to the instant the previous proposal is actually broadcast
		// (the run's first proposal is made at Start): none / before the minimum / during the extended
		// wait / right after the proposal, while its round is still running
		for h := 0; h < o.Heights+2; h++ {
			it := sim.Sched{Kind: "tx", Tx: vt.Tx(1000 + h), To: all, Trig: "after-proposal", TrigCount: h + 1}
			switch cl := r.Intn("txclass", 5); {
			case cl == 4: // right at the minimum block time, within a latency of the instant at which the speaker's first timer
				// expires and it subscribes: the notification may follow the subscription by a millisecond (seeded change
				// C16n: a notification dropped because the minimum block time has "not yet" elapsed)
				it.Dur = tpb - o.MaxLat + o.MaxLat*time.Duration(r.Intn("txatmin", 17))/8
				atMin = true
			case cl == 0: // none at this height: the block waits for the maximum
				continue
			case cl == 1: // early
				it.Dur = tpb * time.Duration(1+r.Intn("txat", 8)) / 10
			case cl == 2: // during the extended wait (kept away from the 2*tpb boundary, see DESIGN)
				if ratio <= 2 {
					continue
				}
				span := cfg.MaxTimePerBlock - tpb
				it.Dur = tpb + span*time.Duration(1+r.Intn("txat", 8))/10
				if d := it.Dur - 2*tpb; d > -4*o.MaxLat && d < 4*o.MaxLat {
					it.Dur = 2*tpb + 5*o.MaxLat
				}
			default: // right after the proposal (it belongs to the next block); not when that proposal itself
				// raced the backups' first timeout
				it.Dur = o.MaxLat * time.Duration(r.Intn("txlateat", 9)) / 2
				it.AvoidGap, it.AvoidWin = 2*tpb, 4*o.MaxLat
				lateTx = true
			}
			o.Plan = append(o.Plan, it)
		}
	case "c09", "c13":
		if r.Intn("phaseskew", 4) == 0 {
			phaseSkew = drawPhaseSkew(r, ids) // delivery orders inside the synchronous periods
		}
		o.Heights = 2 + r.Intn("heights", 2)
		o.SyncPeriod = tpb * time.Duration(3+r.Intn("syncp", 28)) / 10
		o.InitialTxs = r.Intn("inittx", 3)
		if r.Intn("txlag", 3) == 0 {
			// the pools differ: a proposal may list transactions some backups have to ask for (they are handed them within
			// one latency), and the primary of a later view may not know a transaction an earlier proposal listed (seeded
			// change C09m: transactions kept across views)
			o.TxLag = true
			o.InitialTxs += 1 + r.Intn("lagtx", 6)
		}
		o.Horizon = 1 << 62
		o.HealBound = true
		fam := r.Intn("family", 5)
		if sh.Kind == "c13" {
			fam = 0
		}
		silentAndCut := fam == 3 // (iv) silent validators AND a healed partition of some of the live ones
		// (v) silent validators AND another validator that goes down (preferably right after one of its own broadcasts,
		// e.g. its proposal in the first view it is the primary of) and comes back with empty state: the silent ones
		// plus the restarted one may exceed F only in the sense that the restarted one forgot - it is honest otherwise
		silentAndRestart := fam == 4
		if silentAndCut || silentAndRestart {
			fam = 0
		}
		switch fam {
		case 0: // s <= F validators silent from the start, incl. the primaries of the first views
			s := 1 + r.Intn("silent", F)
			if sh.Kind == "c13" {
				s = r.Intn("silent", F) // one slot goes to the watch-only validator
			}
			h := startTip + 1
			for k := 0; k < s; k++ {
				var id int
				if r.Intn("silentprimary", 3) > 0 {
					id = int((int64(h)-int64(k))%int64(n)+int64(n)) % n // primary of view k
				} else {
					id = r.Intn("silentid", n)
				}
				dup := false
				for _, x := range o.Silent {
					if x == id {
						dup = true
					}
				}
				if !dup {
					o.Silent = append(o.Silent, id)
				}
			}
			maxView = len(o.Silent)
			if sh.Kind == "c13" {
				// the watch-only validator: prefer the primary of the first free view
				for k := 0; k < n; k++ {
					id := int((int64(h)-int64(k))%int64(n)+int64(n)) % n
					free := true
					for _, x := range o.Silent {
						if x == id {
							free = false
						}
					}
					if free && (r.Intn("watchprimary", 3) > 0 || k == n-1) {
						watch[id] = true
						break
					}
				}
				maxView = len(o.Silent) + 1
			}
			// the bound on the decision view holds for the first height only when rotation brings silent primaries later
			o.Heights = 1 + r.Intn("heights1", 2)
			if o.Heights > 1 {
				maxView = -1
			}
			if silentAndCut {
				maxView = -1
				o.Plan = append(o.Plan, drawCut(r, ids, n, tpb, 90, 40)...)
			}
			if silentAndRestart {
				maxView = -1
				isSilent := func(id int) bool {
					for _, x := range o.Silent {
						if x == id {
							return true
						}
					}
					return false
				}
				id := -1
				if r.Intn("crashfirstlive", 3) > 0 { // the primary of the first view whose primary is alive
					for k := 0; k < n && id < 0; k++ {
						if c := int((int64(h)-int64(k))%int64(n)+int64(n)) % n; !isSilent(c) {
							id = c
						}
					}
				} else {
					for k := r.Intn("crashid", n); id < 0; k++ {
						if !isSilent(k % n) {
							id = k % n
						}
					}
				}
				dur := tpb * time.Duration(1+r.Intn("crashdur", 40)) / 4 // never zero: crash and restart at one instant could run in either order
				if r.Intn("crashtrig", 3) > 0 {
					o.Plan = append(o.Plan, sim.Sched{Kind: "crash", Node: id, Trig: "after-broadcast", TrigNode: id, TrigCount: 1 + r.Intn("crashtrigcount", 6), Dur: dur})
				} else {
					at := tpb * time.Duration(r.Intn("crashat", 120)) / 10
					o.Plan = append(o.Plan, sim.Sched{At: at, Kind: "crash", Node: id}, sim.Sched{At: at + dur, Kind: "restart", Node: id})
				}
			}
		case 1: // any subset cut off at a drawn instant (or at a drawn event) for a drawn duration, then healed
			o.Plan = append(o.Plan, drawCut(r, ids, n, tpb, 40, 120)...)
		default: // crash + amnesia restart of one validator
			id := r.Intn("crashid", n)
			if r.Intn("crashprimary", 2) == 0 {
				id = int(startTip+1) % n
			}
			at := tpb * time.Duration(r.Intn("crashat", 30)) / 10
			dur := tpb * time.Duration(1+r.Intn("crashdur", 40)) / 4 // never zero: crash and restart at one instant could run in either order
			o.Plan = append(o.Plan, sim.Sched{At: at, Kind: "crash", Node: id}, sim.Sched{At: at + dur, Kind: "restart", Node: id})
		}
	}
	sim.SortPlan(o.Plan)
	if sh.Kind == "c09" {
		mons = append(mons, sim.MonProgress("C09", maxView), sim.MonRecoveryCatchUp("C09"))
	}
	if sh.Kind == "c13" {
		mons = append(mons, sim.MonProgress("C13", maxView))
	}
	w := sim.NewWorld(cfg, r, nil, watch, mons, keepLog)
	if lateTx {
		w.Stat("c16_tx_during_round")
	}
	if atMin {
		w.Stat("c16_tx_at_minimum_block_time")
	}
	if o.TxLag {
		w.Stat("tx_lag")
	}
	if phaseSkew != nil {
		w.PhaseRank = phaseSkew
		w.Stat("phase_skew")
	}
	if rotate {
		w.Stat("committee_rotation")
	}
	w.Stat(fmt.Sprintf("N=%d", n))
	if amev >= 0 {
		w.Stat("amev")
	}
	if startTip == 0 {
		w.Stat("from_genesis")
	}
	if cfg.MaxTimePerBlock > 0 {
		w.Stat("dynamic_block_time")
	}
	if len(o.Silent) > 0 {
		w.Stat("family_silent")
	}
	for _, s := range o.Plan {
		if s.Kind == "cut" {
			w.Stat("family_cut")
			if s.Trig != "" {
				w.Stat("family_triggered_cut")
			}
		}
		if s.Kind == "crash" {
			w.Stat("family_restart")
			if len(o.Silent) > 0 {
				w.Stat("family_silent_and_restart")
			}
		}
	}
	sim.RunTimed(w, o)
	return w
}

// TimedProp builds the rapid property for a timed family.
func TimedProp(e *Env, mk func() []*sim.Mon, sh TimedShape, nontrivial func(w *sim.World) bool) func(*rapid.T) {
	return func(t *rapid.T) {
		src := &RapidSrc{T: t}
		w := RunTimedWorld(src, mk(), false, sh)
		fatal := e.Report(w, src.Rec, func() string {
			w2 := RunTimedWorld(&ReplaySrc{Vals: src.Rec}, mk(), true, sh)
			return w2.Render()
		})
		if w.Stats["inconclusive"] > 0 {
			e.S.mu.Lock()
			e.S.Inconclusive++
			e.S.mu.Unlock()
		}
		e.Case(FPInts(src.Rec), nontrivial(w), w.Stats, func() any { return sampleOf(w, src.Rec) })
		if fatal != "" {
			t.Fatalf("%s", fatal)
		}
	}
}

func regTimed(prop string, mk func() []*sim.Mon, sh TimedShape) {
	replayers[prop] = append(replayers[prop], func(vals []int, keepLog bool) *sim.World {
		return RunTimedWorld(&ReplaySrc{Vals: vals}, mk(), keepLog, sh)
	})
}
