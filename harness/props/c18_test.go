package props

import (
	"math"
	"fmt"
	"testing"
	"time"

	"github.com/nspcc-dev/dbft/timer"
	"pgregory.net/rapid"
)

// C18: the bundled timer against a monotonic wall clock. Model with interval bounds:
// s0/s1 = instants just before / after the latest Reset, D = its duration + all extensions since.
// A value read at `now` is early iff now < s0 + D (this also catches a stale expiry of an earlier
// reset). No value by s1 + D + tolerance is a lost expiry. The early direction is load independent.
const c18Tolerance = 2 * time.Second

// Lateness below the hard tolerance is judged by repetition: scheduling noise does not repeat, a
// wrongly computed deadline does.  A blocking read that returns more than c18Soft after the model's
// deadline makes the sequence suspect; it is a violation only if three more executions of the same
// sequence are all later than c18Soft at the same operation (under a load average of 64 on 16 cores
// one wait in ~900 was more than 50 ms late).
const c18Soft = 35 * time.Millisecond

type c18suspect struct {
	op   int
	late time.Duration
}

type c18op struct {
	Kind string
	D    time.Duration
	H    uint32
	V    byte
	// Same (reset): repeat the previous reset's height, view and duration exactly - what the library does whenever it
	// re-arms the timer of one view (seeded change C18l: an "identical reset" fast path)
	Same bool
}

func genC18ops() *rapid.Generator[[]c18op] {
	dur := rapid.Custom(func(t *rapid.T) time.Duration {
		switch rapid.IntRange(0, 11).Draw(t, "dclass") % 4 { // (0..11 mod 4: class 3 - below - only for 3, 7, 11 = a quarter; halved again there)
		case 3:
			// "never": the saturated timeout the library asks for in very high views (math.MaxInt64), or a century
			// (seeded change C18n: no runtime timer armed for it, an older unread expiry stays readable)
			if rapid.IntRange(0, 1).Draw(t, "neverhalf") == 0 {
				return time.Duration(rapid.IntRange(1, 30).Draw(t, "ms")) * time.Millisecond
			}
			if rapid.IntRange(0, 3).Draw(t, "century") == 0 {
				return 100 * 365 * 24 * time.Hour
			}
			return time.Duration(math.MaxInt64)
		case 0:
			return 0
		case 1:
			return time.Duration(rapid.IntRange(1, 30).Draw(t, "ms")) * time.Millisecond
		default:
			return time.Duration(rapid.IntRange(40, 120).Draw(t, "ms")) * time.Millisecond
		}
	})
	op := rapid.Custom(func(t *rapid.T) c18op {
		k := rapid.SampledFrom([]string{"reset", "reset", "extend", "sleep", "poll", "wait"}).Draw(t, "op")
		o := c18op{Kind: k}
		switch k {
		case "reset":
			o.D = dur.Draw(t, "d")
			o.H = rapid.Uint32().Draw(t, "h")
			o.V = rapid.Byte().Draw(t, "v")
			o.Same = rapid.IntRange(0, 2).Draw(t, "same") == 2
		case "extend":
			o.D = time.Duration(rapid.IntRange(0, 40).Draw(t, "ems")) * time.Millisecond
		case "sleep":
			o.D = time.Duration(rapid.IntRange(0, 45).Draw(t, "sms")) * time.Millisecond
		}
		return o
	})
	return rapid.SliceOfN(op, 3, 14)
}

func c18Run(ops []c18op) (viol, key string, classes map[string]int, susp *c18suspect) {
	classes = map[string]int{}
	tm := timer.New()
	var (
		s0, s1    time.Time
		D         time.Duration
		have      bool // a Reset happened
		consumed  bool // the expiry of the current arming was read
		unread    bool // an expiry of the current arming is (by the model) due and unread
		ambiguous bool // an Extend raced the deadline: neither a further expiry nor its absence is judged
		h         uint32
		v         byte
		lastD     time.Duration // duration given to the latest Reset (without extensions)
	)
	check := func(now time.Time, what string) (string, string) {
		if !have {
			return fmt.Sprintf("%s delivered a value although the timer was never reset", what), "value-without-reset"
		}
		if now.Before(s0.Add(D)) {
			return fmt.Sprintf("%s delivered an expiry %s before latest reset + duration + extensions (D=%s)", what, s0.Add(D).Sub(now), D), "early-expiry"
		}
		if consumed && !ambiguous {
			return fmt.Sprintf("%s delivered a second expiry for one arming (D=%s)", what, D), "double-expiry"
		}
		return "", ""
	}
	for i, o := range ops {
		switch o.Kind {
		case "reset":
			if o.Same && have {
				o.H, o.V, o.D = h, v, lastD
				classes["reset_identical_to_previous"]++
			}
			if have && !consumed && time.Now().After(s1.Add(D)) {
				classes["reset_after_unread_expiry"]++
			}
			s0 = time.Now()
			// Reset must return: it runs under a watchdog (a timer whose Reset blocks hangs the consensus event loop)
			done := make(chan struct{})
			go func() { tm.Reset(o.H, o.V, o.D); close(done) }()
			select {
			case <-done:
			case <-time.After(c18Tolerance):
				return fmt.Sprintf("op %d: Reset(%d,%d,%s) did not return within %s", i, o.H, o.V, o.D, c18Tolerance), "reset-blocked", classes, nil
			}
			s1 = time.Now()
			D, lastD, have, consumed, ambiguous, h, v = o.D, o.D, true, false, false, o.H, o.V
			if o.D == 0 && o.V%2 == 0 {
				// fires immediately for a zero duration (read at once in half of the cases, left unread in the others)
				select {
				case <-tm.C():
					consumed = true
				default:
					return fmt.Sprintf("op %d: Reset with zero duration did not make an expiry available immediately", i), "zero-not-immediate", classes, nil
				}
				classes["zero_reset"]++
			} else if o.D == 0 {
				classes["zero_reset_left_unread"]++
			}
		case "extend":
			if !have {
				continue
			}
			before := time.Now()
			wasDue := !before.Before(s1.Add(D))
			if D > time.Hour {
				classes["extend_after_never"]++
			}
			tm.Extend(o.D)
			after := time.Now()
			if D > time.Duration(math.MaxInt64)-o.D {
				D = time.Duration(math.MaxInt64) // (the sum saturates in the model)
			} else {
				D += o.D
			}
			if consumed {
				switch {
				case after.Before(s0.Add(D)):
					consumed = false // the deadline moved beyond the read for sure: one more expiry is legitimate
					classes["extend_rearms"]++
				case !before.Before(s1.Add(D)):
					// certainly not re-armed
				default:
					ambiguous = true // within the few microseconds between s0 and s1: accept either outcome
				}
			}
			if wasDue {
				classes["extend_after_due"]++
			}
			if D-o.D == 0 || (o.D > 0 && consumed) {
				classes["extend_after_zero"]++
			}
		case "sleep":
			time.Sleep(o.D)
		case "poll":
			select {
			case <-tm.C():
				now := time.Now()
				if m, k := check(now, fmt.Sprintf("op %d: non-blocking read", i)); m != "" {
					return m, k, classes, nil
				}
				consumed = true
			default:
				if have && !consumed && !ambiguous && time.Now().After(s1.Add(D).Add(c18Tolerance)) {
					return fmt.Sprintf("op %d: no expiry %s after the deadline", i, time.Since(s1.Add(D))), "lost-expiry", classes, nil
				}
			}
			_ = unread
		case "wait":
			if !have || consumed || ambiguous {
				continue
			}
			if D > time.Hour {
				// armed for "never": nothing may be readable now (an expiry left over from an earlier arming included)
				classes["read_after_never_reset"]++
				select {
				case <-tm.C():
					if m, k := check(time.Now(), fmt.Sprintf("op %d: read after a reset for %s", i, D)); m != "" {
						return m, k, classes, nil
					}
				default:
				}
				continue
			}
			deadline := s1.Add(D)
			due := deadline // the instant from which a delivery is owed: the deadline, or now if it has passed already
			if n := time.Now(); n.After(due) {
				due = n
			}
			wait := time.Until(deadline) + c18Tolerance
			select {
			case <-tm.C():
				now := time.Now()
				if m, k := check(now, fmt.Sprintf("op %d: blocking read", i)); m != "" {
					return m, k, classes, nil
				}
				if late := now.Sub(deadline); late > 50*time.Millisecond {
					classes["late_over_50ms"]++
				}
				if late := now.Sub(due); late > c18Soft && susp == nil {
					susp = &c18suspect{op: i, late: late}
				}
				consumed = true
				classes["waited"]++
			case <-time.After(wait):
				return fmt.Sprintf("op %d: no expiry within %s after the deadline (D=%s)", i, c18Tolerance, D), "lost-expiry", classes, nil
			}
		}
		if have && (tm.Height() != h || tm.View() != v) {
			return fmt.Sprintf("op %d: timer reports (%d,%d), latest reset was (%d,%d)", i, tm.Height(), tm.View(), h, v), "wrong-epoch", classes, nil
		}
	}
	return "", "", classes, susp
}

// c18Noise measures what the machine does to plain runtime timers right now: the worst lateness of four 5 ms timers.
func c18Noise() time.Duration {
	worst := time.Duration(0)
	for i := 0; i < 4; i++ {
		t0 := time.Now()
		<-time.NewTimer(5 * time.Millisecond).C
		if l := time.Since(t0) - 5*time.Millisecond; l > worst {
			worst = l
		}
	}
	return worst
}

// c18Judge runs a sequence and confirms a suspected late expiry by repetition: three more executions must be late at
// the same operation while plain runtime timers measured in between are NOT late (on a machine that delays every timer
// by tens of milliseconds - a load average of 90 on 16 cores did - lateness says nothing about the timer under test:
// not judged, counted).
func c18Judge(ops []c18op) (string, string, map[string]int) {
	msg, key, cl, susp := c18Run(ops)
	if msg != "" || susp == nil {
		return msg, key, cl
	}
	cl["late_suspects"]++
	least := susp.late
	for k := 0; k < 3; k++ {
		if c18Noise() > c18Soft/2 {
			cl["late_not_judged_machine_overloaded"]++
			return "", "", cl
		}
		m2, _, _, s2 := c18Run(ops)
		if m2 != "" || s2 == nil || s2.op != susp.op {
			return "", "", cl // did not repeat
		}
		least = min(least, s2.late)
	}
	if c18Noise() > c18Soft/2 {
		cl["late_not_judged_machine_overloaded"]++
		return "", "", cl
	}
	return fmt.Sprintf("op %d: blocking read returned at least %s after latest reset + duration + extensions in each of 4 executions of the sequence (scheduling noise does not repeat)", susp.op, least), "late-expiry", cl
}

func TestC18(t *testing.T) {
	SkipUnlessSelected(t, "C18")
	e := GetEnv("C18")
	defer e.Flush()
	rapid.Check(t, func(rt *rapid.T) {
		ops := genC18ops().Draw(rt, "ops")
		msg, key, cl := c18Judge(ops)
		desc := fmt.Sprintf("%v", ops)
		if msg != "" {
			e.Violation(key, msg, "ops="+desc)
		}
		e.Case(FPString(desc), cl["reset_after_unread_expiry"] > 0 || cl["extend_after_zero"] > 0 || cl["extend_rearms"] > 0, cl, func() any { return map[string]any{"ops": desc} })
		if msg != "" {
			rt.Fatalf("%s: %s", key, msg)
		}
	})
}
