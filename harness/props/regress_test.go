package props

import (
	"fmt"
	"os"
	"sort"
	"strings"
	"testing"
	"time"

	"github.com/nspcc-dev/dbft"
	"github.com/nspcc-dev/dbft/internal/consensus"
	"github.com/nspcc-dev/dbft/verifharness/sim"
	"github.com/nspcc-dev/dbft/verifharness/vt"
)

// Deterministic regression scenarios: shrunk failures turned into plain
// checks that bypass rapid. Each names the property and the violation key the
// monitors report when the defect is present.
type scenario struct {
	Prop string
	Key  string // expected key when it fails ("" = any key of Prop)
	Run  func(keepLog bool) *sim.World
}

func constVals(n int) func(uint32) []int {
	base := make([]int, n)
	for i := range base {
		base[i] = i
	}
	return func(uint32) []int { return base }
}

func soloCfg(n int, tip uint32, amev int64) sim.Cfg {
	return sim.Cfg{IDs: n, Validators: constVals(n), ValDesc: fmt.Sprintf("const[0..%d]", n-1), StartTip: tip, AMEVHeight: amev,
		TimePerBlock: time.Second, TsIncrement: 1_000_000, Epoch: epoch0}
}

var scenarios = map[string]scenario{
	// D1: an invalid commit stored before the proposal is never re-validated at a backup.
	"D1-early-commit": {Prop: "C02", Key: "D1-early-commit-not-revalidated", Run: func(keep bool) *sim.World {
		s := sim.NewSolo(soloCfg(4, 1, -1), &ReplaySrc{}, 0, false, []*sim.Mon{sim.MonC02()}, keep)
		s.N.Start() // height 2, primary index 2, node is backup 0
		s.N.Receive(s.BadCommit(1, 0, 7))
		p := s.Proposal(0, s.NextTs(), 1)
		s.N.Receive(p)
		s.N.Receive(s.Response(3, 0, p.Hash()))
		s.N.Receive(s.Commit(2, p))
		return s.W
	}},
	"D1-early-precommit": {Prop: "C02", Key: "D1-early-precommit-not-revalidated", Run: func(keep bool) *sim.World {
		s := sim.NewSolo(soloCfg(4, 1, 0), &ReplaySrc{}, 0, false, []*sim.Mon{sim.MonC02()}, keep)
		s.N.Start()
		s.N.Receive(s.BadPreCommit(1, 0, 7))
		p := s.Proposal(0, s.NextTs(), 1)
		s.N.Receive(p)
		s.N.Receive(s.Response(3, 0, p.Hash()))
		s.N.Receive(s.PreCommit(2, p))
		return s.W
	}},
	// D10: under anti-MEV a node that had not sent its own pre-commit never re-verified early commits.
	"D10-amev-observer-early-commit": {Prop: "C02", Key: "commit-quorum", Run: func(keep bool) *sim.World {
		cfg := soloCfg(4, 1, 0)
		cfg.IDs = 5 // identity 4 is an observer outside the validator list
		s := sim.NewSolo(cfg, &ReplaySrc{}, 4, false, []*sim.Mon{sim.MonC02()}, keep)
		s.N.Start()
		p := s.Proposal(0, s.NextTs(), 1)
		s.N.Receive(p)
		s.N.Receive(s.BadCommit(0, 0, 3)) // proposal known, but no header before the pre-block is processed
		for _, i := range []int{1, 2, 3} {
			s.N.Receive(s.PreCommit(i, p))
		}
		s.N.Receive(s.Commit(1, p))
		s.N.Receive(s.Commit(2, p))
		return s.W
	}},
	// D14: a watch-only node never verified pre-commits stored while transactions were missing.
	"D14-watchonly-precommit-missing-tx": {Prop: "C02", Key: "precommit-quorum", Run: func(keep bool) *sim.World {
		s := sim.NewSolo(soloCfg(4, 1, 0), &ReplaySrc{}, 0, true, []*sim.Mon{sim.MonC02()}, keep)
		s.N.Start() // validator 0 carries the watch-only flag; height 2, primary 2
		tx := s.W.NewTx(false)
		p := s.Proposal(0, s.NextTs(), 1, tx)
		s.N.Receive(p)
		s.N.Receive(s.BadPreCommit(1, 0, 5)) // cannot be verified yet: a transaction is missing
		s.N.Transaction(tx)
		s.N.Receive(s.PreCommit(2, p))
		s.N.Receive(s.PreCommit(3, p))
		return s.W
	}},
	// D9: at the first height of a new chain every timer was clamped to zero.
	"D9-genesis-zero-timers": {Prop: "C08", Key: "D9-genesis-zero-timers", Run: func(keep bool) *sim.World {
		cfg := soloCfg(4, 0, -1)
		w := sim.NewWorld(cfg, LabelSrc{"lat": 10}, nil, nil, []*sim.Mon{sim.MonC08()}, keep)
		sim.RunTimed(w, sim.TimedOpts{Heights: 2, Horizon: 20 * time.Second, MaxEvents: 5000, MaxLat: 10 * time.Millisecond})
		return w
	}},
	// D15 (known finding): a primary that enters its view while processing a recovery message waits a
	// whole view timeout (by design, issue #74) - the same timeout its backups use - instead of proposing at once.
	"D15-recovering-primary": {Prop: "C09", Key: "D15-recovering-primary-waits-full-timeout", Run: func(keep bool) *sim.World {
		s := sim.NewSolo(soloCfg(7, 1000003, -1), &ReplaySrc{}, 4, false, nil, keep)
		s.N.Start() // height 1000004: primary of view 0 is 5 (silent), of view 1 is 4 = the node
		var cvs []sim.Payload
		for _, i := range []int{0, 1, 2, 3, 6} {
			cvs = append(cvs, s.CV(i, 0, 1))
		}
		s.N.Receive(s.Recovery(2, 1, cvs...))
		if s.V() == 1 && s.N.D.IsPrimary() && s.LastOwn(dbft.PrepareRequestType) == nil && s.N.Timer.D >= s.W.Cfg.TimePerBlock<<2 {
			s.W.Fail("C09", fmt.Sprintf("primary entered view 1 through a recovery message and armed a %s timer (the backups' view-1 timeout) instead of proposing", s.N.Timer.D), "D15-recovering-primary-waits-full-timeout")
		}
		return s.W
	}},
	// D11 (known finding): a validator restarted with empty state while primary of an undecided view proposes again.
	"D11-restarted-primary-reproposes": {Prop: "C09", Key: "D11-restarted-primary-reproposed", Run: func(keep bool) *sim.World {
		s := sim.NewSolo(soloCfg(4, 3, -1), &ReplaySrc{}, 0, false, nil, keep)
		s.N.Start() // height 4, primary index 0 = the node: proposes at once
		p1 := s.LastOwn(dbft.PrepareRequestType)
		s.Advance(300 * time.Millisecond)
		s.W.Restart(s.N)
		p2 := s.LastOwn(dbft.PrepareRequestType)
		if p1 != nil && p2 != nil && p1.Hash() != p2.Hash() && p1.V == p2.V {
			s.W.Fail("C09", "a validator restarted with empty state broadcast a second, different proposal for the same height and view", "D11-restarted-primary-reproposed")
		}
		return s.W
	}},
	// D20 (known finding): the dBFT 2.0 liveness lock after a healed partition, four honest validators.
	"D20-commit-after-changeview-lock": {Prop: "C09", Key: "D20-commit-after-changeview-lock", Run: func(keep bool) *sim.World {
		return sim.ScenarioD20Lock([]*sim.Mon{sim.MonProgress("C09", -1)}, keep, &ReplaySrc{}, 12)
	}},
	// D7: the reference recovery message codec dropped pre-commits and lost the preparation hash.
	"D7-recovery-codec-precommits": {Prop: "C19", Key: "D7-recovery-roundtrip-differs", Run: func(keep bool) *sim.World {
		w := sim.NewWorld(soloCfg(1, 1, -1), &ReplaySrc{}, []int{0}, nil, nil, keep)
		d := desc{T: dbft.RecoveryMessageType, Height: 7, View: 1, Idx: 2, Emb: []desc{
			{T: dbft.PreCommitType, Height: 7, View: 1, Idx: 3, Data: [4]byte{0, 0, 0, 7}},
			{T: dbft.CommitType, Height: 7, View: 1, Idx: 3},
		}}
		p := d.build()
		dec := new(consensus.Payload)
		if err := dec.UnmarshalUnsigned(p.(*consensus.Payload).MarshalUnsigned()); err != nil {
			w.Fail("C19", "decoder rejects a recovery message: "+err.Error(), "decoder-rejects-own-encoding")
		} else if a, b := observable(p, 0), observable(dec, 0); a != b {
			w.Fail("C19", "decode(encode(recovery message)) differs: before: "+a+" after: "+b, "D7-recovery-roundtrip-differs")
		}
		return w
	}},
	"D7-recovery-codec-responses": {Prop: "C19", Key: "D7-recovery-roundtrip-differs", Run: func(keep bool) *sim.World {
		w := sim.NewWorld(soloCfg(1, 1, -1), &ReplaySrc{}, []int{0}, nil, nil, keep)
		req := desc{T: dbft.PrepareRequestType, Height: 7, View: 1, Idx: 2, Ts: 55, Nonce: 9, Hashes: []u256{{1}, {2}}}
		h := req.build().Hash()
		d := desc{T: dbft.RecoveryMessageType, Height: 7, View: 1, Idx: 0, Emb: []desc{req,
			{T: dbft.PrepareResponseType, Height: 7, View: 1, Idx: 1, Prep: h},
			{T: dbft.PrepareResponseType, Height: 7, View: 1, Idx: 3, Prep: h},
		}}
		p := d.build()
		dec := new(consensus.Payload)
		if err := dec.UnmarshalUnsigned(p.(*consensus.Payload).MarshalUnsigned()); err != nil {
			w.Fail("C19", "decoder rejects a recovery message: "+err.Error(), "decoder-rejects-own-encoding")
		} else if a, b := observable(p, 2), observable(dec, 2); a != b {
			w.Fail("C19", "decode(encode(recovery message)) differs: before: "+a+" after: "+b, "D7-recovery-roundtrip-differs")
		}
		return w
	}},
	// D17: transactions completed from the pool on a recovery request left stored pre-commits unverified.
	"D17-precommit-after-pool-completion": {Prop: "C02", Key: "precommit-quorum", Run: func(keep bool) *sim.World {
		s := sim.NewSolo(soloCfg(4, 1, 0), &ReplaySrc{}, 0, false, []*sim.Mon{sim.MonC02()}, keep)
		s.N.Start() // height 2, primary 2, the node is backup 0
		tx := s.W.NewTx(false)
		p := s.Proposal(0, s.NextTs(), 1, tx)
		s.N.Receive(p)
		s.N.Receive(s.BadPreCommit(1, 0, 5)) // stored unverified: a transaction is missing
		s.N.AddTx(tx)                        // the transaction reaches the pool by other means
		s.Fire()                             // timeout -> recovery request -> missing transactions are looked up in the pool again
		s.N.Receive(s.PreCommit(2, p))
		s.N.Receive(s.PreCommit(3, p))
		return s.W
	}},
	// the same path seen from C07: the node must not commit on M pre-commits one of which is invalid
	"D17-commit-after-pool-completion": {Prop: "C07", Key: "", Run: func(keep bool) *sim.World {
		s := sim.NewSolo(soloCfg(4, 1, 0), &ReplaySrc{}, 0, false, []*sim.Mon{sim.MonC07()}, keep)
		s.N.Start()
		tx := s.W.NewTx(false)
		p := s.Proposal(0, s.NextTs(), 1, tx)
		s.N.Receive(p)
		s.N.Receive(s.BadPreCommit(1, 0, 5))
		s.N.AddTx(tx)
		s.Fire()
		s.N.Receive(s.Response(1, 0, p.Hash()))
		s.N.Receive(s.Response(3, 0, p.Hash())) // M preparations of the others: the node sends its own pre-commit
		s.N.Receive(s.PreCommit(2, p))          // own + invalid + one valid
		return s.W
	}},
	// D21: a re-request on timeout found the missing transaction in the pool, filled it in silently and never
	// checked or answered the proposal; with M preparations of the others the node committed to a block its
	// verification callback had never seen, and the transaction supplied afterwards was ignored.
	"D21-pool-completion-unanswered": {Prop: "C12", Key: "no-answer-after-all-supplied", Run: func(keep bool) *sim.World {
		s := sim.NewSolo(soloCfg(4, 1, -1), &ReplaySrc{}, 0, false, []*sim.Mon{sim.MonC12()}, keep)
		s.N.Start() // height 2, primary 2, the node is backup 0
		tx := s.W.NewTx(false)
		p := s.Proposal(0, s.NextTs(), 1, tx)
		s.N.Receive(p)
		s.N.AddTx(tx) // reaches the pool before the application's notification
		s.Fire()      // timeout -> recovery request -> the missing transaction is looked up in the pool again
		s.N.Receive(s.Response(1, 0, p.Hash()))
		s.N.Receive(s.Response(3, 0, p.Hash()))
		s.N.Transaction(tx)
		return s.W
	}},
	// D22: the re-request inside sendRecoveryRequest completes the proposal from the pool, the block fails verification,
	// the node's own ChangeView is the M-th one and the view changes inside the call - where the library learns that
	// the application has withdrawn its key; the outer frame then went on and broadcast its RecoveryRequest as a
	// watch-only node (validator index 65535).  Introduced by the D21 repair, found at VERIF_SEED=51.
	"D22-recovery-request-after-nested-reinit": {Prop: "C13", Key: "watchonly-broadcast", Run: func(keep bool) *sim.World {
		s := sim.NewSolo(soloCfg(4, 1, -1), &ReplaySrc{}, 0, false, []*sim.Mon{sim.MonC13()}, keep)
		s.N.Start() // height 2, primary 2, the node is backup 0
		tx := s.W.NewTx(true) // no block may contain it: verification will fail
		p := s.Proposal(0, s.NextTs(), 1, tx)
		s.N.Receive(p)
		s.N.Receive(s.Recovery(2, 1, s.CV(2, 0, 1))) // the primary gives up on its own view (recovery message tagged with the next view)
		s.N.Receive(s.CV(3, 0, 1))
		s.N.Receive(s.Commit(2, p)) // one committed + one never heard of (validator 1): more than F committed or lost
		s.N.AddTx(tx)               // reaches the pool before the application's notification
		s.N.KeyWithdrawn, s.N.KeyWithdrawnH, s.N.KeyWithdrawnV = true, s.H(), s.V()
		s.Fire() // timeout -> recovery request -> pool lookup -> verification fails -> own ChangeView is the M-th
		return s.W
	}},
	// D8: timePerBlock << (view+1) overflowed into a negative timer duration at high views.
	"D8-view-timeout-overflow": {Prop: "C10", Key: "D8-negative-duration-high-view", Run: func(keep bool) *sim.World {
		cfg := soloCfg(4, 1, -1)
		cfg.TimePerBlock = 15 * time.Second
		s := sim.NewSolo(cfg, &ReplaySrc{}, 0, false, []*sim.Mon{sim.MonC10()}, keep)
		s.N.Start()
		for v := byte(0); v < 40 && len(s.W.Viols) == 0; v++ {
			for _, j := range s.Others() { // M = 3 requests from the others move the node on their own
				s.N.Receive(s.CV(j, v, v+1))
			}
		}
		return s.W
	}},
	// D18: a restarted primary answered its own proposal found in a recovery message and crashed on the next response.
	"D18-restarted-primary-own-request": {Prop: "C11", Key: "panic:OnReceive", Run: func(keep bool) *sim.World {
		s := sim.NewSolo(soloCfg(4, 1, -1), &ReplaySrc{}, 1, false, nil, keep)
		s.N.Start() // height 2: primary of view 0 is 2, of view 1 is 1 = the node
		cvs := []sim.Payload{s.CV(0, 0, 1), s.CV(2, 0, 1), s.CV(3, 0, 1)}
		for _, cv := range cvs {
			s.N.Receive(cv)
		}
		s.Fire() // primary of view 1 proposes
		p1 := s.LastOwn(dbft.PrepareRequestType)
		if p1 == nil || p1.V != 1 {
			panic("scenario: no proposal in view 1")
		}
		s.W.Restart(s.N) // amnesia: back in view 0
		emb := append(append([]sim.Payload{}, cvs...), p1, s.Response(0, 1, p1.Hash()), s.Response(3, 1, p1.Hash()))
		s.N.Receive(s.Recovery(0, 1, emb...))
		return s.W
	}},
	// D1 at the agreement level: with one Byzantine primary the unverified early commits fork N=4.
	"D1-fork": {Prop: "C01", Key: "D1-fork-unverified-early-commit", Run: func(keep bool) *sim.World {
		return sim.ScenarioD1Fork([]*sim.Mon{sim.MonC01()}, keep, &ReplaySrc{})
	}},
	// D12: the primary counted an early response naming another proposal.
	"D12-primary-early-response": {Prop: "C04", Key: "commit-without-prep-quorum", Run: func(keep bool) *sim.World {
		s := sim.NewSolo(soloCfg(7, 5, -1), &ReplaySrc{}, 0, false, []*sim.Mon{sim.MonC04()}, keep)
		s.N.Start()    // height 6, backup
		s.SkipHeight() // height 7, primary index 0 = the node, waiting for its timer
		s.N.Receive(s.Response(3, 0, vt.Sum([]byte("some other proposal"))))
		s.Fire()
		p := s.LastOwn(dbft.PrepareRequestType)
		if p == nil {
			panic("scenario: primary did not propose")
		}
		for _, i := range []int{1, 2, 4} {
			s.N.Receive(s.Response(i, 0, p.Hash()))
		}
		return s.W
	}},
	// D5: payloads cached for an unreached view of a finished height stayed in the cache.
	"D5-stale-cache": {Prop: "C05", Key: "D5-stale-cache-height", Run: func(keep bool) *sim.World {
		s := sim.NewSolo(soloCfg(4, 1, -1), &ReplaySrc{}, 0, false, []*sim.Mon{sim.MonC05()}, keep)
		s.N.Start()
		s.N.Receive(s.BadCommit(3, 1, 1)) // future view of height 2: cached
		p := s.Proposal(0, s.NextTs(), 1)
		s.N.Receive(p)
		s.N.Receive(s.Response(3, 0, p.Hash()))
		s.N.Receive(s.Commit(2, p))
		s.N.Receive(s.Commit(3, p))
		s.ResetIfNeeded()
		return s.W
	}},
	// D3: nested view change while the last requested transaction is supplied.
	"D3-nested-missing-list": {Prop: "C12", Key: "no-answer-after-all-supplied", Run: func(keep bool) *sim.World {
		s := sim.NewSolo(soloCfg(4, 1, -1), &ReplaySrc{}, 0, false, []*sim.Mon{sim.MonC12()}, keep)
		s.N.Start() // height 2: primary v0 = 2, v1 = 1
		a, b := s.W.NewTx(true), s.W.NewTx(false)
		c, d := s.W.NewTx(false), s.W.NewTx(false)
		s.N.Receive(s.CV(1, 0, 1))
		s.N.Receive(s.CV(3, 0, 1))
		s.N.Receive(s.Proposal(1, s.NextTs(), 2, c, d)) // view 1 proposal arrives early: cached
		s.N.Receive(s.Proposal(0, s.NextTs(), 1, a, b))
		s.N.Transaction(b)
		s.N.Transaction(a) // completes the block, verification fails, view changes, cached proposal starts
		s.N.Transaction(c)
		s.N.Transaction(d)
		return s.W
	}},
	"D3-nested-panic": {Prop: "C11", Key: "panic:OnTransaction", Run: func(keep bool) *sim.World {
		s := sim.NewSolo(soloCfg(7, 1, -1), &ReplaySrc{}, 0, false, nil, keep)
		s.N.Start() // height 2: primary v0 = 2, v1 = 1; F=2, M=5
		a, b := s.W.NewTx(true), s.W.NewTx(false)
		c := s.W.NewTx(false)
		for _, i := range []int{1, 2, 3, 4} {
			s.N.Receive(s.CV(i, 0, 1))
		}
		s.N.Receive(s.BadCommit(3, 0, 1)) // "committed" validators steer the timeout towards a recovery request
		s.N.Receive(s.BadCommit(4, 0, 2))
		s.N.Receive(s.Proposal(1, s.NextTs(), 2, c)) // cached for view 1
		s.N.Receive(s.Proposal(0, s.NextTs(), 1, a, b))
		s.N.AddTx(a)       // a reaches the pool by other means
		s.Fire()           // timeout -> recovery request, which re-requests: a is taken from the pool, b is listed again
		s.N.Transaction(b) // completes the block: verification fails, view changes, cached proposal starts inside the call
		return s.W
	}},
	// D2: a validator flagged watch-only that is primary at start proposed.
	"D2-watchonly-primary-start": {Prop: "C13", Key: "D2-watchonly-broadcast-on-start", Run: func(keep bool) *sim.World {
		s := sim.NewSolo(soloCfg(4, 3, -1), &ReplaySrc{}, 0, true, []*sim.Mon{sim.MonC13()}, keep)
		s.N.Start() // height 4: primary index 0 = the flagged node
		return s.W
	}},
	// D13: M change views "for v or above" did not move the node when the last one asked for a higher view.
	"D13-changeview-lower-view": {Prop: "C11", Key: "redelivery-changed-state", Run: func(keep bool) *sim.World {
		s := sim.NewSolo(soloCfg(4, 1, -1), &ReplaySrc{}, 0, false, nil, keep)
		s.N.Start()
		cv1 := s.CV(1, 0, 1)
		s.N.Receive(cv1)
		s.N.Receive(s.CV(2, 0, 1))
		s.N.Receive(s.CV(3, 0, 3))
		fp := sim.Fingerprint(s.N, sim.FPOpt{NoLastSeen: true})
		s.N.Receive(cv1)
		if fp2 := sim.Fingerprint(s.N, sim.FPOpt{NoLastSeen: true}); fp2 != fp {
			s.W.Fail("C11", "re-delivery of a stored ChangeView changed the state: "+sim.FirstDiff(fp, fp2), "redelivery-changed-state")
		}
		return s.W
	}},
}

// TestRegress runs every scenario of VERIF_PROP (or all) and prints one line per scenario.
func TestRegress(t *testing.T) {
	prop := os.Getenv("VERIF_PROP")
	only := os.Getenv("VERIF_REGRESS")
	names := make([]string, 0, len(scenarios))
	for n := range scenarios {
		names = append(names, n)
	}
	sort.Strings(names)
	for _, name := range names {
		sc := scenarios[name]
		if (prop != "" && sc.Prop != prop) || (only != "" && only != name) {
			continue
		}
		w := sc.Run(only != "")
		status, key, msg := "PASS", "", ""
		for _, v := range w.Viols {
			if v.Prop == sc.Prop {
				status, key, msg = "FAIL", v.Key, v.Msg
				break
			}
		}
		fmt.Printf("REGRESS name=%s property=%s key=%s status=%s %s\n", name, sc.Prop, key, status, strings.ReplaceAll(msg, "\n", " | "))
		if only != "" && status == "FAIL" {
			fmt.Printf("REPLAY-VIOLATION property=%s key=%s: %s\n%s\n", sc.Prop, key, msg, w.Render())
		}
	}
}
