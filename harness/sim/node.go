// Package sim runs real dbft instances under a harness that owns every source
// of non-determinism: network, timers, clock, crashes, Byzantine payloads and
// application callbacks.
package sim

import (
	"errors"
	"fmt"
	"runtime/debug"
	"strings"
	"time"

	"github.com/nspcc-dev/dbft"
	"github.com/nspcc-dev/dbft/verifharness/vt"
	"go.uber.org/zap"
)

type (
	Payload = *vt.Payload
	DBFT    = dbft.DBFT[vt.H]
)

// BlockTimes is what the block-time callbacks return right now for this node.
func (n *Node) BlockTimes() (time.Duration, time.Duration) {
	if f := n.W.Cfg.BlockTimeByTip; f != nil {
		return f(n.Tip)
	}
	return n.W.Cfg.TimePerBlock, n.W.Cfg.MaxTimePerBlock
}

// PolicyRejected: proposals with these nonces fail the application's VerifyPrepareRequest.
func PolicyRejected(nonce uint64) bool { return nonce >= 0xBAD0 && nonce <= 0xBAD3 }

// VTimer is the injected virtual timer of one node.
type VTimer struct {
	n       *Node
	H       uint32
	V       byte
	At      time.Time     // instant of the last Reset
	D       time.Duration // requested duration incl. extensions
	D0      time.Duration // duration requested by Reset itself
	Pending bool
	Set     bool // Reset was called at least once since (re)start
	Resets  int
	Extends int
}

func (t *VTimer) Now() time.Time { return t.n.libNow() }
func (t *VTimer) Reset(h uint32, v byte, d time.Duration) {
	t.H, t.V, t.At, t.D, t.D0 = h, v, t.n.Now(), d, d
	t.Pending, t.Set = true, true
	t.Resets++
	t.n.ev(EvTimerReset, nil, fmt.Sprintf("h=%d v=%d d=%s", h, v, d))
	for _, m := range t.n.W.Mons {
		if m.TimerReset != nil {
			m.TimerReset(t.n, h, v, d)
		}
	}
}
func (t *VTimer) Extend(d time.Duration) {
	t.D += d
	t.Extends++
	if !t.Pending && t.At.Add(t.D).After(t.Now()) {
		t.Pending = true
	}
	t.n.ev(EvTimerExtend, nil, fmt.Sprintf("d=%s", d))
	for _, m := range t.n.W.Mons {
		if m.TimerExtend != nil {
			m.TimerExtend(t.n, d)
		}
	}
}
func (t *VTimer) Height() uint32      { return t.H }
func (t *VTimer) View() byte          { return t.V }
func (t *VTimer) C() <-chan time.Time { return nil }
func (t *VTimer) Deadline() time.Time { return t.At.Add(t.D) }

// EvKind enumerates what the instrumented callbacks record.
type EvKind uint8

const (
	EvCall EvKind = iota
	EvBroadcast
	EvTimerReset
	EvTimerExtend
	EvProcessBlock
	EvProcessPreBlock
	EvRequestTx
	EvSubscribe
	EvStopTxFlow
	EvVerifyBlock
	EvVerifyPreBlock
	EvNewBlock
	EvNewPreBlock
	EvSign
	EvSetData
	EvGetVerified
	EvPanic
	EvNewPrepareRequest
)

var evNames = [...]string{"call", "broadcast", "timer.reset", "timer.extend", "processBlock", "processPreBlock", "requestTx", "subscribe", "stopTxFlow", "verifyBlock", "verifyPreBlock", "newBlock", "newPreBlock", "sign", "setData", "getVerified", "PANIC", "newPrepareRequest"}

func (k EvKind) String() string { return evNames[k] }

// Event is one entry of a node's log.
type Event struct {
	Step int
	T    time.Duration // virtual time since epoch
	Kind EvKind
	P    Payload
	S    string
	Ht   uint32 // node's BlockIndex at that instant
	V    byte
}

// CallKind enumerates library entry points.
type CallKind uint8

const (
	CStart CallKind = iota
	CReset
	CReceive
	CTimeout
	CTransaction
	CNewTransaction
)

var callNames = [...]string{"Start", "Reset", "OnReceive", "OnTimeout", "OnTransaction", "OnNewTransaction"}

func (c CallKind) String() string { return callNames[c] }

// Call describes the API call in progress.
type Call struct {
	Kind CallKind
	P    Payload
	H    uint32
	V    byte
	Tx   vt.Tx
	// state sampled before the call
	PreHeight    uint32
	PreView      byte
	PreBlockSent bool
	PreResets    int
	PreTimer     VTimer
	PreSub       bool // library-side transaction subscription active before the call
	// counters at call start (index into node log)
	LogStart int
	fp       string
	fpSet    bool
}

// Node is one library instance together with its application.
type Node struct {
	W         *World
	ID        int // identity
	D         *DBFT
	Timer     *VTimer
	WatchFlag bool        // Config.WatchOnly()
	// FlagCleared: the application cleared the flag while the node was at (FlagClearedH, FlagClearedV)
	// KeyWithdrawn: the application stopped handing out this validator's key (GetKeyPair answers -1: wallet locked, key
	// withdrawn) while the node was at (KeyWithdrawnH, KeyWithdrawnV); the library asks at every (re)initialisation
	KeyWithdrawn  bool
	KeyWithdrawnH uint32
	KeyWithdrawnV byte
	FlagCleared  bool
	FlagClearedH uint32
	FlagClearedV byte
	ReadSkew  bool        // the clock may move between two reads of one call (see libNow)
	Reads     []time.Time // clock readings served to the library during the current call
	Crashed   bool
	Faulty    bool // was restarted with amnesia in this run (counts as faulty)
	Restarts  int
	Silent    bool // down from the start, never comes back
	Synced    int  // blocks adopted through ledger synchronisation
	Timeouts  int  // timer expiries delivered so far (timed mode)
	bcSeen    int
	bcCount   int
	Offset    time.Duration // per-node clock offset

	// application: ledger
	Tip      uint32 // CurrentHeight
	TipHash  vt.H
	TipTs    uint64
	Chain    map[uint32]*vt.Block // accepted blocks by index
	NeedInit bool                 // ledger advanced, Reset not yet called

	// mempool
	Pool      map[vt.H]vt.Tx
	PoolOrder []vt.Tx
	MaxTx     int

	Subscribed bool

	// scripted callback results
	FailPreBlock int  // ProcessPreBlock fails this many more times
	PastLife     bool // restarted with empty state (driver B): peers hand it back what its index said in a previous life
	FailSetData  int  // PreBlock.SetData fails this many more times (transient error while building the own pre-commit)
	FailSign     int  // Block.Sign fails this many more times (transient signer error while building the own commit)
	FailBlock    int  // ProcessBlock (anti-MEV only) fails this many more times
	RejectBlocks bool // VerifyBlock returns false regardless of content
	// RejectHeights: at these heights this node's application rejects every proposed block (a policy difference
	// between nodes: the others accept what this one refuses)
	RejectHeights map[uint32]bool

	Log    []Event
	Cur    *Call
	Seen   map[uint32][]Payload // payloads handed to OnReceive (incl. embedded), by height
	Direct map[uint32][]Payload // payloads handed to OnReceive directly, by height
	Own    map[uint32][]Payload // payloads broadcast, by height

	// per-height bookkeeping used by monitors
	Accepted    map[uint32][]*vt.Block // blocks for which ProcessBlock returned nil
	PreAccepted map[uint32]int
	Requested   []vt.H // union of RequestTx arguments since the last proposal was stored
	// Want is the application's own record of what the library asked for and was not yet handed
	// (hash -> height/view of the request); the schedulers supply from it, never from the library's list
	Want      map[vt.H][2]uint32
	Callbacks int // number of callback invocations so far
}

func (n *Node) Now() time.Time { return n.W.Clock.Add(n.Offset) }

// libNow is what the library reads through Timer.Now().  With ReadSkew the clock may move between two reads inside
// one API call (an NTP step, a VM resume): forward a little or backward a lot.  Every reading served during the
// current call is recorded in Reads.
func (n *Node) libNow() time.Time {
	t := n.Now()
	if n.ReadSkew && n.Cur != nil {
		switch n.W.R.Intn("readskew", 5) {
		case 3:
			t = t.Add(time.Duration(3*n.W.Cfg.TsIncrement) + 17)
		case 4:
			t = t.Add(-3 * n.W.Cfg.TimePerBlock)
			n.W.Stat("clock_stepped_back_between_reads")
		}
	}
	if n.Cur != nil {
		n.Reads = append(n.Reads, t)
	}
	return t
}

func (n *Node) ev(k EvKind, p Payload, s string) {
	if k != EvCall {
		n.Callbacks++
	}
	if !n.W.KeepLog {
		return
	}
	e := Event{Step: n.W.Step, T: n.W.Clock.Sub(n.W.Cfg.Epoch), Kind: k, P: p, S: s}
	if n.D != nil && n.D.Validators != nil {
		e.Ht, e.V = n.D.BlockIndex, n.D.ViewNumber
	}
	n.Log = append(n.Log, e)
}

// IsValidatorAt tells whether the identity is in the validator list for block index h.
func (n *Node) IndexAt(h uint32) int {
	for i, id := range n.W.Cfg.Validators(h) {
		if id == n.ID {
			return i
		}
	}
	return -1
}

// Active tells whether the node takes an active part at its current height.
// Active: a validator of its current height whose application has not set the watch-only flag - by the harness' own
// knowledge, not by what the library's context reports about itself.
// KeyGone: the key was withdrawn and the node has been (re)initialised since - from then on it is an observer.
func (n *Node) KeyGone() bool {
	return n.KeyWithdrawn && n.D != nil && n.D.Validators != nil && (n.D.BlockIndex != n.KeyWithdrawnH || n.D.ViewNumber != n.KeyWithdrawnV)
}

func (n *Node) Active() bool {
	if n.D == nil || n.WatchFlag || n.KeyGone() {
		return false
	}
	h := n.Tip + 1 // not started yet: the height it is going to start at
	if n.D.Validators != nil {
		h = n.D.BlockIndex
	}
	return n.IndexAt(h) >= 0
}

func (n *Node) pubs(h uint32) []dbft.PublicKey {
	ids := n.W.Cfg.Validators(h)
	out := make([]dbft.PublicKey, len(ids))
	for i, id := range ids {
		out[i] = vt.Pub(id)
	}
	return out
}

func (n *Node) newDBFT() {
	w := n.W
	n.Timer = &VTimer{n: n}
	opts := []func(*dbft.Config[vt.H]){
		dbft.WithTimer[vt.H](n.Timer),
		dbft.WithLogger[vt.H](zap.NewNop()),
		dbft.WithTimePerBlock[vt.H](func() time.Duration { t, _ := n.BlockTimes(); return t }),
		dbft.WithTimestampIncrement[vt.H](w.Cfg.TsIncrement),
		dbft.WithCurrentHeight[vt.H](func() uint32 { return n.Tip }),
		dbft.WithCurrentBlockHash[vt.H](func() vt.H { return n.TipHash }),
		dbft.WithGetValidators[vt.H](func(...dbft.Transaction[vt.H]) []dbft.PublicKey { return n.pubs(n.Tip + 1) }),
		dbft.WithGetKeyPair[vt.H](func(pubs []dbft.PublicKey) (int, dbft.PrivateKey, dbft.PublicKey) {
			if n.KeyWithdrawn {
				return -1, nil, nil
			}
			for i, p := range pubs {
				if p == dbft.PublicKey(vt.Pub(n.ID)) {
					return i, vt.Priv(n.ID), vt.Pub(n.ID)
				}
			}
			return -1, nil, nil
		}),
		dbft.WithWatchOnly[vt.H](func() bool { return n.WatchFlag }),
		dbft.WithBroadcast[vt.H](n.cbBroadcast),
		dbft.WithGetTx[vt.H](func(h vt.H) dbft.Transaction[vt.H] {
			if tx, ok := n.Pool[h]; ok {
				return tx
			}
			return nil
		}),
		dbft.WithGetVerified[vt.H](n.cbGetVerified),
		dbft.WithRequestTx[vt.H](func(hs ...vt.H) {
			n.Requested = append(n.Requested, hs...)
			if n.Want == nil {
				n.Want = map[vt.H][2]uint32{}
			}
			for _, h := range hs {
				n.Want[h] = [2]uint32{n.D.BlockIndex, uint32(n.D.ViewNumber)}
			}
			n.ev(EvRequestTx, nil, fmt.Sprint(len(hs)))
			for _, m := range w.Mons {
				if m.RequestTx != nil {
					m.RequestTx(n, hs)
				}
			}
		}),
		dbft.WithStopTxFlow[vt.H](func() {
			n.ev(EvStopTxFlow, nil, "")
			if w.Cfg.HonourStopTxFlow && len(n.Want) > 0 {
				w.Stat("stoptxflow_dropped_wants")
				n.Want = nil
			}
		}),
		// the application's own policy check of a proposal: nonces in the reserved range are rejected by every node
		// (only fabricated proposals carry them, an honest primary's nonce comes from 64 random bits)
		dbft.WithVerifyPrepareRequest[vt.H](func(p dbft.ConsensusPayload[vt.H]) error {
			if PolicyRejected(p.GetPrepareRequest().Nonce()) {
				n.ev(EvVerifyBlock, nil, "proposal rejected by policy")
				w.Stat("proposal_rejected_by_policy")
				return errors.New("vt: proposal rejected by policy")
			}
			return nil
		}),
		dbft.WithVerifyBlock[vt.H](func(b dbft.Block[vt.H]) bool {
			ok := n.verifyTxs(b.Transactions())
			n.ev(EvVerifyBlock, nil, fmt.Sprint(ok))
			for _, m := range w.Mons {
				if m.VerifyBlock != nil {
					m.VerifyBlock(n, ok)
				}
			}
			return ok
		}),
		dbft.WithProcessBlock[vt.H](n.cbProcessBlock),
		dbft.WithNewBlockFromContext[vt.H](n.cbNewBlock),
		dbft.WithNewConsensusPayload[vt.H](func(c *dbft.Context[vt.H], t dbft.MessageType, msg any) dbft.ConsensusPayload[vt.H] {
			return vt.New(t, c.BlockIndex, c.ViewNumber, uint16(c.MyIndex), n.ID, msg)
		}),
		dbft.WithNewPrepareRequest[vt.H](func(ts, nonce uint64, hs []vt.H) dbft.PrepareRequest[vt.H] {
			for _, m := range w.Mons {
				if m.NewPrepareRequest != nil {
					m.NewPrepareRequest(n, ts, nonce, hs)
				}
			}
			return &vt.PrepareRequest{Ts: ts, N: nonce, Hashes: append([]vt.H(nil), hs...)}
		}),
		dbft.WithNewPrepareResponse[vt.H](func(h vt.H) dbft.PrepareResponse[vt.H] { return &vt.PrepareResponse{Prep: h} }),
		dbft.WithNewChangeView[vt.H](func(nv byte, r dbft.ChangeViewReason, ts uint64) dbft.ChangeView {
			return &vt.ChangeView{NewView: nv, R: r, Ts: ts}
		}),
		dbft.WithNewCommit[vt.H](func(sig []byte) dbft.Commit { return &vt.Commit{Sig: append([]byte(nil), sig...)} }),
		dbft.WithNewRecoveryRequest[vt.H](func(ts uint64) dbft.RecoveryRequest { return &vt.RecoveryRequest{Ts: ts} }),
		dbft.WithNewRecoveryMessage[vt.H](func() dbft.RecoveryMessage[vt.H] { return &vt.RecoveryMessage{} }),
	}
	if w.Cfg.AMEVHeight >= 0 {
		opts = append(opts,
			dbft.WithAntiMEVExtensionEnablingHeight[vt.H](w.Cfg.AMEVHeight),
			dbft.WithNewPreCommit[vt.H](func(d []byte) dbft.PreCommit { return &vt.PreCommit{D: append([]byte(nil), d...)} }),
			dbft.WithNewPreBlockFromContext[vt.H](n.cbNewPreBlock),
			dbft.WithProcessPreBlock[vt.H](n.cbProcessPreBlock),
			dbft.WithVerifyPreBlock[vt.H](func(b dbft.PreBlock[vt.H]) bool {
				ok := n.verifyTxs(b.Transactions())
				if pb, is := b.(*vt.PreBlock); is && !w.Cfg.AMEVOn(pb.Idx) {
					// a plain dBFT 2.0 height: the application has nothing to say about pre-blocks there (the library's
					// default answer); its verdict on the block is what VerifyBlock returns
					w.Stat("verifypreblock_below_enabling_height")
					ok = true
				}
				n.ev(EvVerifyPreBlock, nil, fmt.Sprint(ok))
				for _, m := range w.Mons {
					if m.VerifyBlock != nil {
						m.VerifyBlock(n, ok)
					}
				}
				return ok
			}),
		)
	}
	subscribe := dbft.WithSubscribeForTxs[vt.H](func() {
		if w.SubHook != nil {
			w.SubHook(n)
		}
		n.Subscribed = true
		n.ev(EvSubscribe, nil, "")
		for _, m := range w.Mons {
			if m.Subscribe != nil {
				m.Subscribe(n)
			}
		}
	})
	if w.Cfg.MaxTimePerBlock > 0 {
		opts = append(opts, dbft.WithMaxTimePerBlock[vt.H](func() time.Duration { _, m := n.BlockTimes(); return m }), subscribe)
	} else if w.Cfg.SubscribeProbe {
		// An application that leaves its subscription callback in place although the extension is not configured.  The
		// unchanged library refuses such a configuration outright - which also means "never used"; a library that
		// accepts it must still never call it (seeded change C16l).
		if d, err := dbft.New[vt.H](append(append([]func(*dbft.Config[vt.H]){}, opts...), subscribe)...); err == nil {
			w.Stat("subscribe_only_config_accepted")
			n.D = d
			return
		}
		w.Stat("subscribe_only_config_rejected")
	}
	d, err := dbft.New[vt.H](opts...)
	if err != nil {
		panic("harness: dbft.New: " + err.Error())
	}
	n.D = d
}

func (n *Node) verifyTxs(txs []dbft.Transaction[vt.H]) bool {
	for _, m := range n.W.Mons {
		if m.VerifyTxs != nil {
			m.VerifyTxs(n, txs)
		}
	}
	if n.RejectBlocks || n.RejectHeights[n.D.BlockIndex] {
		return false
	}
	for _, tx := range txs {
		if tx == nil {
			return false // a block with a hole cannot be verified
		}
		if t, ok := tx.(vt.Tx); ok && t.Poisoned() {
			return false
		}
	}
	return true
}

func (n *Node) cbGetVerified() []dbft.Transaction[vt.H] {
	out := make([]dbft.Transaction[vt.H], 0, len(n.PoolOrder))
	for _, tx := range n.PoolOrder {
		if tx.Poisoned() {
			continue
		}
		if n.MaxTx > 0 && len(out) >= n.MaxTx {
			break
		}
		out = append(out, tx)
	}
	n.ev(EvGetVerified, nil, fmt.Sprint(len(out)))
	for _, m := range n.W.Mons {
		if m.GetVerified != nil {
			m.GetVerified(n, out)
		}
	}
	return out
}

// cbGetVerifiedQuiet: how many transactions GetVerified would hand out now (no event, no hooks).
func (n *Node) cbGetVerifiedQuiet() int {
	c := 0
	for _, tx := range n.PoolOrder {
		if !tx.Poisoned() {
			c++
		}
	}
	return c
}

func (n *Node) cbBroadcast(p dbft.ConsensusPayload[vt.H]) {
	pp := p.(*vt.Payload)
	n.ev(EvBroadcast, pp, "")
	n.Own[pp.Ht] = append(n.Own[pp.Ht], pp)
	n.bcCount++
	for _, m := range n.W.Mons {
		if m.Broadcast != nil {
			m.Broadcast(n, pp)
		}
	}
	n.W.onBroadcast(n, pp)
}

func (n *Node) cbNewBlock(c *dbft.Context[vt.H]) dbft.Block[vt.H] {
	var b *vt.Block
	if n.W.Cfg.AMEVOn(c.BlockIndex) {
		pb, _ := c.PreBlock().(*vt.PreBlock)
		if pb == nil {
			// The library asks for the final block although the context holds no pre-block: a node that
			// processed the pre-block in an earlier view without being locked (an observer, a validator that
			// had not pre-committed) and then changed view keeps preBlockProcessed=true while the pre-block
			// of the new view does not exist yet. Not a violation of a listed property (the callback did
			// succeed earlier at this height); the harness application copes, the reference one would not.
			n.W.Stat("newblock_without_preblock")
			b = &vt.Block{Header: vt.Header{Idx: c.BlockIndex, Prev: c.PrevHash, Ts: c.Timestamp, Nonce: c.Nonce, TxHashes: append([]vt.H(nil), c.TransactionHashes...)}, AMEV: true}
		} else {
			b = pb.Final()
		}
		if f := n.W.Cfg.ShareBoundFrom; f > 0 && c.BlockIndex >= f {
			b.ShareBound = true
			m := c.M()
			for i, p := range c.PreCommitPayloads {
				if p != nil && p.ViewNumber() == c.ViewNumber && m > 0 && i < 64 {
					b.Shares |= 1 << uint(i)
					m--
				}
			}
			n.W.Stat("share_bound_block_built")
		}
	} else {
		b = &vt.Block{Header: vt.Header{Idx: c.BlockIndex, Prev: c.PrevHash, Ts: c.Timestamp, Nonce: c.Nonce, TxHashes: append([]vt.H(nil), c.TransactionHashes...)}}
	}
	b.FailSign = func() bool {
		if n.FailSign > 0 {
			n.FailSign--
			n.W.Stat("sign_failed")
			return true
		}
		return false
	}
	b.OnSign = func(b *vt.Block, key dbft.PrivateKey) {
		n.ev(EvSign, nil, "")
		for _, m := range n.W.Mons {
			if m.Sign != nil {
				m.Sign(n, b)
			}
		}
	}
	n.ev(EvNewBlock, nil, "")
	for _, m := range n.W.Mons {
		if m.NewBlock != nil {
			m.NewBlock(n, b)
		}
	}
	return b
}

func (n *Node) cbNewPreBlock(c *dbft.Context[vt.H]) dbft.PreBlock[vt.H] {
	pb := &vt.PreBlock{Header: vt.Header{Idx: c.BlockIndex, Prev: c.PrevHash, Ts: c.Timestamp, Nonce: c.Nonce, TxHashes: append([]vt.H(nil), c.TransactionHashes...)}}
	pb.FailSetData = func() bool {
		if n.FailSetData > 0 {
			n.FailSetData--
			n.W.Stat("setdata_failed")
			return true
		}
		return false
	}
	pb.OnSetData = func(pb *vt.PreBlock, key dbft.PrivateKey) {
		n.ev(EvSetData, nil, "")
		for _, m := range n.W.Mons {
			if m.SetData != nil {
				m.SetData(n, pb)
			}
		}
	}
	n.ev(EvNewPreBlock, nil, "")
	for _, m := range n.W.Mons {
		if m.NewPreBlock != nil {
			m.NewPreBlock(n, pb)
		}
	}
	return pb
}

func (n *Node) cbProcessPreBlock(b dbft.PreBlock[vt.H]) error {
	pb := b.(*vt.PreBlock)
	var err error
	if n.FailPreBlock > 0 {
		n.FailPreBlock--
		err = errors.New("scripted pre-block failure")
	}
	n.ev(EvProcessPreBlock, nil, fmt.Sprintf("idx=%d err=%v", pb.Idx, err))
	for _, m := range n.W.Mons {
		if m.ProcessPreBlock != nil {
			m.ProcessPreBlock(n, pb, err)
		}
	}
	if err == nil {
		n.PreAccepted[pb.Idx]++
	}
	return err
}

func (n *Node) cbProcessBlock(b dbft.Block[vt.H]) error {
	blk := b.(*vt.Block)
	var err error
	if n.FailBlock > 0 && n.W.Cfg.AMEVOn(n.D.BlockIndex) {
		n.FailBlock--
		err = errors.New("scripted block failure")
	}
	n.ev(EvProcessBlock, nil, fmt.Sprintf("idx=%d hash=%s err=%v", blk.Idx, blk.Hash(), err))
	for _, m := range n.W.Mons {
		if m.ProcessBlock != nil {
			m.ProcessBlock(n, blk, err)
		}
	}
	if err != nil {
		return err
	}
	n.Accepted[blk.Idx] = append(n.Accepted[blk.Idx], blk)
	// The application applies the block to its ledger if it extends the tip.
	if blk.Idx == n.Tip+1 {
		n.applyBlock(blk)
	}
	n.W.onAccepted(n, blk)
	return nil
}

// applyBlock advances the application's ledger.
func (n *Node) applyBlock(blk *vt.Block) {
	n.Chain[blk.Idx] = blk
	n.Tip = blk.Idx
	n.TipHash = blk.Hash()
	n.TipTs = blk.Ts
	n.NeedInit = true
	removed := false
	for _, h := range blk.TxHashes {
		if _, ok := n.Pool[h]; ok {
			delete(n.Pool, h)
			removed = true
		}
	}
	if removed { // one pass (pools may hold tens of thousands of transactions)
		kept := make([]vt.Tx, 0, len(n.Pool))
		for _, tx := range n.PoolOrder {
			if _, ok := n.Pool[tx.Hash()]; ok {
				kept = append(kept, tx)
			}
		}
		n.PoolOrder = kept
	}
}

// AddTx puts a transaction into the node's pool.
func (n *Node) AddTx(tx vt.Tx) bool {
	h := tx.Hash()
	if _, ok := n.Pool[h]; ok {
		return false
	}
	n.Pool[h] = tx
	n.PoolOrder = append(n.PoolOrder, tx)
	return true
}

// do runs one API call with monitor hooks and panic capture.
func (n *Node) do(c Call, f func()) {
	if n.D == nil {
		return
	}
	c.LogStart = len(n.Log)
	if n.D.Validators != nil {
		c.PreHeight, c.PreView, c.PreBlockSent = n.D.BlockIndex, n.D.ViewNumber, n.D.BlockSent()
		c.PreSub = n.D.VerifFlags().TxSubscriptionOn
	}
	c.PreResets = n.Timer.Resets
	c.PreTimer = *n.Timer
	n.Cur = &c
	n.Reads = n.Reads[:0]
	desc := ""
	if n.W.KeepLog {
		switch c.Kind {
		case CReceive:
			desc = c.P.Summary()
		case CTimeout:
			desc = fmt.Sprintf("h=%d v=%d", c.H, c.V)
		case CTransaction:
			desc = fmt.Sprintf("tx=%x", uint64(c.Tx))
		}
	}
	n.ev(EvCall, c.P, c.Kind.String()+" "+desc)
	for _, m := range n.W.Mons {
		if m.BeforeCall != nil {
			m.BeforeCall(n, &c)
		}
	}
	func() {
		defer func() {
			if r := recover(); r != nil {
				if strings.HasPrefix(fmt.Sprintf("%T", r), "rapid.") {
					panic(r) // rapid's own control flow (invalid data while shrinking), not a library panic
				}
				n.ev(EvPanic, nil, fmt.Sprint(r))
				n.W.Fail("C11", fmt.Sprintf("node %d: panic in %s: %v\n%s", n.ID, c.Kind, r, trimStack(debug.Stack())), "panic:"+c.Kind.String())
				n.Crashed = true // state is unknown; stop driving it
				for _, m := range n.W.Mons {
					if m.Panic != nil {
						m.Panic(n, &c, fmt.Sprint(r))
					}
				}
			}
		}()
		f()
	}()
	if !n.Crashed {
		if n.D.BlockIndex == c.PreHeight && n.D.ViewNumber != c.PreView && c.Kind != CStart {
			n.W.Stat("view_changed")
		}
		for _, m := range n.W.Mons {
			if m.AfterCall != nil {
				m.AfterCall(n, &c)
			}
		}
	}
	n.Cur = nil
}

func trimStack(b []byte) string {
	s := string(b)
	if len(s) > 3000 {
		s = s[:3000]
	}
	return s
}

func (n *Node) remember(p Payload) {
	n.Seen[p.Ht] = append(n.Seen[p.Ht], p)
	n.Direct[p.Ht] = append(n.Direct[p.Ht], p)
	if rm, ok := p.Body.(*vt.RecoveryMessage); ok {
		for _, e := range rm.Embedded {
			n.Seen[e.Ht] = append(n.Seen[e.Ht], e)
		}
	}
}

// Start / Reset / Receive / Timeout / Transaction / NewTransaction are the
// only ways the harness touches the library.
func (n *Node) Start() {
	n.NeedInit = false
	n.do(Call{Kind: CStart}, func() { n.D.Start(n.TipTs) })
	n.gcHistory()
}
func (n *Node) Reset() {
	n.NeedInit = false
	n.do(Call{Kind: CReset}, func() { n.D.Reset(n.TipTs) })
	n.gcHistory()
}
func (n *Node) Receive(p Payload) {
	n.remember(p)
	n.do(Call{Kind: CReceive, P: p}, func() { n.D.OnReceive(p) })
}
func (n *Node) Timeout(h uint32, v byte) {
	n.do(Call{Kind: CTimeout, H: h, V: v}, func() { n.D.OnTimeout(h, v) })
}
func (n *Node) Transaction(tx vt.Tx) {
	n.do(Call{Kind: CTransaction, Tx: tx}, func() { n.D.OnTransaction(tx) })
}
func (n *Node) NewTransaction() {
	n.do(Call{Kind: CNewTransaction}, func() { n.D.OnNewTransaction() })
}

func (n *Node) gcHistory() {
	for h := range n.Seen {
		if h <= n.Tip {
			delete(n.Seen, h)
		}
	}
	for h := range n.Direct {
		if h <= n.Tip {
			delete(n.Direct, h)
		}
	}
	for h := range n.Own {
		if h+1 <= n.Tip {
			delete(n.Own, h)
		}
	}
	n.Requested = n.Requested[:0]
}

// Broadcasts is the number of payloads the node has broadcast so far.
func (n *Node) Broadcasts() int { return n.bcCount }
