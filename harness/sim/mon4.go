package sim

import (
	"bytes"
	"fmt"

	"github.com/nspcc-dev/dbft"
	"github.com/nspcc-dev/dbft/verifharness/vt"
)

// ---- C15 honest proposals are well formed -----------------------------------------------

func MonC15() *Mon {
	type st struct {
		prevTs   uint64 // previous block timestamp given at (re)initialisation
		verified []vt.H // hashes of the last GetVerified result, in order
		have     bool
		ts       uint64
		nonce    uint64
		hashes   []vt.H
		proposed bool
		h        uint32
		v        byte
	}
	sts := map[*Node]*st{}
	get := func(n *Node) *st {
		s := sts[n]
		if s == nil {
			s = &st{}
			sts[n] = s
		}
		return s
	}
	return &Mon{Name: "C15",
		Restarted: func(n *Node) { delete(sts, n) },
		BeforeCall: func(n *Node, c *Call) {
			if c.Kind == CStart || c.Kind == CReset {
				s := get(n)
				s.prevTs = n.TipTs
				s.proposed = false
			}
		},
		GetVerified: func(n *Node, txs []dbft.Transaction[vt.H]) {
			s := get(n)
			s.verified = s.verified[:0]
			for _, tx := range txs {
				s.verified = append(s.verified, tx.Hash())
			}
			s.have = true
		},
		NewPrepareRequest: func(n *Node, ts, nonce uint64, hs []vt.H) {
			w, d := n.W, n.D
			s := get(n)
			if ts != d.Timestamp || nonce != d.Nonce || !sameHashes(hs, d.TransactionHashes) {
				w.Fail("C15", fmt.Sprintf("node %d: proposal built from (ts=%d nonce=%d %d txs) but the context holds (ts=%d nonce=%d %d txs)", n.ID, ts, nonce, len(hs), d.Timestamp, d.Nonce, len(d.TransactionHashes)), "proposal-differs-from-context")
			}
			if !s.have || !sameHashes(hs, s.verified) {
				w.Fail("C15", fmt.Sprintf("node %d height %d: proposal lists %d transactions, the verified-pool callback returned %d (or another order)", n.ID, d.BlockIndex, len(hs), len(s.verified)), "proposal-not-pool")
			}
			inc := w.Cfg.TsIncrement
			now := uint64(n.Now().UnixNano()) / inc * inc
			if ts <= s.prevTs {
				w.Fail("C15", fmt.Sprintf("node %d height %d: proposal timestamp %d is not greater than the previous block's %d (clock %d)", n.ID, d.BlockIndex, ts, s.prevTs, n.Now().UnixNano()), "timestamp-not-increasing")
			}
			if n.ReadSkew && len(n.Reads) > 0 {
				// the clock moved between the reads of this call: the proposal is max(prev+inc, one of the readings truncated)
				ok := false
				for _, r := range n.Reads {
					if ts == max(s.prevTs+inc, uint64(r.UnixNano())/inc*inc) {
						ok = true
					}
				}
				if !ok {
					w.Fail("C15", fmt.Sprintf("node %d height %d: proposal timestamp %d is max(prev+inc=%d, reading) for none of the %d clock readings of this call", n.ID, d.BlockIndex, ts, s.prevTs+inc, len(n.Reads)), "timestamp-not-clock")
				}
			} else if now >= s.prevTs+inc && ts != now {
				w.Fail("C15", fmt.Sprintf("node %d height %d: clock truncated to the increment is %d (>= prev+inc %d) but the proposal carries %d", n.ID, d.BlockIndex, now, s.prevTs+inc, ts), "timestamp-not-clock")
			}
			if !n.ReadSkew && ts > max(s.prevTs+inc, now) {
				w.Fail("C15", fmt.Sprintf("node %d height %d: proposal timestamp %d exceeds max(prev+inc=%d, clock=%d)", n.ID, d.BlockIndex, ts, s.prevTs+inc, now), "timestamp-too-large")
			}
			s.ts, s.nonce, s.hashes = ts, nonce, append([]vt.H(nil), hs...)
			s.proposed, s.h, s.v = true, d.BlockIndex, d.ViewNumber
			w.Stat("c15_proposal")
			if (uint64(n.Now().UnixNano())%inc != 0 && len(hs) > 0) || uint64(n.Now().UnixNano()) <= s.prevTs {
				w.Stat("c15_nontrivial")
			}
		},
		Broadcast: func(n *Node, p Payload) {
			if p.T == dbft.PreCommitType || p.T == dbft.CommitType {
				// what the primary commits itself to is the block of its own proposal - also when the (pre-)block object
				// was built at another moment than the proposal (seeded change C15l: built and cached before it)
				s, d := get(n), n.D
				if !s.proposed || !d.IsPrimary() || s.h != p.Ht || s.v != p.V || d.BlockIndex != p.Ht || n.W.Cfg.ShareBoundFrom > 0 {
					return
				}
				hd := vt.Header{Idx: p.Ht, Prev: d.PrevHash, Ts: s.ts, Nonce: s.nonce, TxHashes: s.hashes}
				ok := true
				if p.T == dbft.PreCommitType {
					ok = bytes.Equal(p.Body.(*vt.PreCommit).D, (&vt.PreBlock{Header: hd}).DataFor(n.ID))
				} else {
					ok = (&vt.Block{Header: hd, AMEV: n.W.Cfg.AMEVOn(p.Ht)}).Verify(vt.Pub(n.ID), p.Body.(*vt.Commit).Sig) == nil
				}
				if !ok {
					n.W.Fail("C15", fmt.Sprintf("node %d height %d view %d: the primary's own %s is not for the block of its proposal (ts=%d nonce=%d %d txs)", n.ID, p.Ht, p.V, vt.ShortType(p.T), s.ts, s.nonce, len(s.hashes)), "own-block-differs")
				}
				n.W.Stat("c15_own_commitment_checked")
				return
			}
			if p.T != dbft.PrepareRequestType {
				return
			}
			s := get(n)
			b := p.Body.(*vt.PrepareRequest)
			if !s.proposed || s.h != p.Ht || s.v != p.V || b.Ts != s.ts || b.N != s.nonce || !sameHashes(b.Hashes, s.hashes) {
				n.W.Fail("C15", fmt.Sprintf("node %d: broadcast proposal %s differs from what was built", n.ID, p.Summary()), "broadcast-differs")
			}
		},
		NewBlock: func(n *Node, b *vt.Block) {
			s := get(n)
			d := n.D
			if !s.proposed || !d.IsPrimary() || s.h != d.BlockIndex || s.v != d.ViewNumber {
				return
			}
			if b.Ts != s.ts || b.Nonce != s.nonce || !sameHashes(b.TxHashes, s.hashes) {
				n.W.Fail("C15", fmt.Sprintf("node %d height %d: the primary's own block (ts=%d nonce=%d %d txs) is not built from its proposal (ts=%d nonce=%d %d txs)", n.ID, d.BlockIndex, b.Ts, b.Nonce, len(b.TxHashes), s.ts, s.nonce, len(s.hashes)), "own-block-differs")
			}
			n.W.Stat("c15_own_block_checked")
		},
		NewPreBlock: func(n *Node, b *vt.PreBlock) {
			s := get(n)
			d := n.D
			if !s.proposed || !d.IsPrimary() || s.h != d.BlockIndex || s.v != d.ViewNumber {
				return
			}
			if b.Ts != s.ts || b.Nonce != s.nonce || !sameHashes(b.TxHashes, s.hashes) {
				n.W.Fail("C15", fmt.Sprintf("node %d height %d: the primary's own pre-block is not built from its proposal", n.ID, d.BlockIndex), "own-block-differs")
			}
			n.W.Stat("c15_own_block_checked")
		},
	}
}
