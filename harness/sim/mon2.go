package sim

import (
	"fmt"
	"time"

	"github.com/nspcc-dev/dbft"
	"github.com/nspcc-dev/dbft/verifharness/vt"
)

// ---- C05 one decision per height, quiescence, clean re-initialisation -------------

func MonC05() *Mon {
	type q struct {
		on bool
		fp string
	}
	quiet := map[*Node]*q{}
	seenBefore := map[*Node]map[Payload]bool{}
	tipAt := map[*Node]uint32{}
	tipHashAt := map[*Node]vt.H{}
	inQuiet := func(n *Node) bool { x := quiet[n]; return x != nil && x.on }
	visited := map[*Node]map[uint32]bool{} // heights this library instance has been at
	bcAt := map[*Node]int{}
	visit := func(n *Node, h uint32) {
		if visited[n] == nil {
			visited[n] = map[uint32]bool{}
		}
		visited[n][h] = true
	}
	return &Mon{Name: "C05",
		Restarted: func(n *Node) { delete(visited, n) },
		Panic: func(n *Node, c *Call, msg string) {
			// (C11 reports every panic; a re-initialisation that panics has also failed to put the node at the next height)
			if (c.Kind == CReset || c.Kind == CStart) && !n.Faulty {
				n.W.Fail("C05", fmt.Sprintf("node %d: the library panicked inside %s at ledger height %d (%s)", n.ID, c.Kind, n.Tip, msg), "panic-in-reinitialisation")
			}
		},
		ProcessBlock: func(n *Node, b *vt.Block, err error) {
			if inQuiet(n) {
				n.W.Fail("C05", fmt.Sprintf("node %d: ProcessBlock(%d) called after the height was already decided", n.ID, b.Idx), "processblock-after-decision")
			}
			if err == nil && len(n.Accepted[b.Idx]) >= 1 {
				n.W.Fail("C05", fmt.Sprintf("node %d: second block handed over for height %d", n.ID, b.Idx), "two-decisions")
			}
		},
		ProcessPreBlock: func(n *Node, b *vt.PreBlock, err error) {
			if inQuiet(n) {
				n.W.Fail("C05", fmt.Sprintf("node %d: ProcessPreBlock(%d) called after the height was already decided", n.ID, b.Idx), "processpreblock-after-decision")
			}
		},
		Broadcast: func(n *Node, p Payload) {
			if !inQuiet(n) {
				return
			}
			c := n.Cur
			if p.T == dbft.RecoveryMessageType && c != nil && c.Kind == CReceive && c.P.T == dbft.RecoveryRequestType {
				n.W.Stat("c05_recovery_reply_after_decision")
				return
			}
			n.W.Fail("C05", fmt.Sprintf("node %d height %d: broadcast %s after the block was accepted and before Reset", n.ID, n.D.BlockIndex, p.Summary()), "broadcast-after-decision")
		},
		TimerReset: func(n *Node, h uint32, v byte, d time.Duration) {
			if inQuiet(n) {
				n.W.Fail("C05", fmt.Sprintf("node %d height %d: timer reset after the block was accepted and before Reset", n.ID, n.D.BlockIndex), "timer-after-decision")
			}
		},
		TimerExtend: func(n *Node, d time.Duration) {
			if inQuiet(n) {
				n.W.Fail("C05", fmt.Sprintf("node %d height %d: timer extended after the block was accepted and before Reset", n.ID, n.D.BlockIndex), "timer-after-decision")
			}
		},
		BeforeCall: func(n *Node, c *Call) {
			x := quiet[n]
			if x == nil {
				x = &q{}
				quiet[n] = x
			}
			x.on = false
			switch c.Kind {
			case CReceive, CTimeout, CTransaction, CNewTransaction:
				if n.D.Validators != nil && n.D.BlockSent() {
					x.on = true
					x.fp = Fingerprint(n, FPOpt{NoLastSeen: true, NoCache: true})
					n.W.Stat("c05_call_after_decision")
				}
			case CStart, CReset:
				m := map[Payload]bool{}
				if c.Kind == CReset { // a fresh instance (Start) has been handed nothing yet
					for _, p := range n.Direct[n.Tip+1] {
						m[p] = true
					}
				}
				seenBefore[n] = m
				tipAt[n], tipHashAt[n] = n.Tip, n.TipHash
				bcAt[n] = n.Broadcasts()
			}
		},
		AfterCall: func(n *Node, c *Call) {
			w, d := n.W, n.D
			if d.Validators != nil {
				defer visit(n, d.BlockIndex)
			}
			if x := quiet[n]; x != nil && x.on {
				x.on = false
				if fp := Fingerprint(n, FPOpt{NoLastSeen: true, NoCache: true}); fp != x.fp {
					w.Fail("C05", fmt.Sprintf("node %d height %d: state changed by %s after the block was accepted: %s", n.ID, d.BlockIndex, c.Kind, FirstDiff(x.fp, fp)), "state-change-after-decision")
				}
				return
			}
			if c.Kind != CStart && c.Kind != CReset {
				return
			}
			h := d.BlockIndex
			bad := func(key, format string, a ...any) {
				w.Fail("C05", fmt.Sprintf("node %d after %s at ledger height %d: ", n.ID, c.Kind, tipAt[n])+fmt.Sprintf(format, a...), key)
			}
			if h != tipAt[n]+1 {
				bad("wrong-height", "BlockIndex=%d, want %d", h, tipAt[n]+1)
				return
			}
			if d.PrevHash != tipHashAt[n] {
				bad("wrong-prevhash", "PrevHash=%s, want %s", d.PrevHash, tipHashAt[n])
			}
			want := n.W.Cfg.Validators(h)
			if len(d.Validators) != len(want) {
				bad("wrong-validators", "validator list has %d entries, callbacks return %d", len(d.Validators), len(want))
				return
			}
			for i := range want {
				if d.Validators[i] != dbft.PublicKey(vt.Pub(want[i])) {
					bad("wrong-validators", "validator %d is %v, want %v", i, d.Validators[i], want[i])
					return
				}
			}
			if d.MyIndex != n.IndexAt(h) {
				bad("wrong-myindex", "MyIndex=%d, want %d", d.MyIndex, n.IndexAt(h))
			}
			// timing taken afresh: when this instance never was at the previous height (heights skipped by
			// ledger sync, or a fresh instance) nothing it remembers may shorten the first timer; checked when
			// the call did nothing but initialise (no cached traffic acted upon)
			if n.Active() && d.ViewNumber == 0 && !d.BlockSent() && n.Broadcasts() == bcAt[n] && h > 0 && !visited[n][h-1] && n.Timer.Resets > c.PreTimer.Resets {
				want, _ := n.BlockTimes() // the tip has not moved since the call started: the pair the library has just read
				if !d.IsPrimary() {
					want *= 2
				}
				w.Stat("c05_first_timer_checked")
				if len(visited[n]) > 0 {
					w.Stat("c05_first_timer_after_skipped_heights")
				}
				if t := n.Timer; t.H != h || t.V != 0 || t.D0 != want {
					bad("stale-timing", "first timer is (%d,%d,%s), want (%d,0,%s): this instance never was at height %d, nothing may adjust it", t.H, t.V, t.D0, h, want, h-1)
				}
			}
			// ... and when the change views received early for this height carried the node beyond view 0 inside the call,
			// the timer it is left with is the one of the role it has in the view it ended up in (a backup of view v waits
			// TimePerBlock << (v+1), a primary that is not recovering one block time) - not of the role it had in view 0
			// (seeded change C05m: role evaluated once before the cached payloads are replayed)
			if n.Active() && d.ViewNumber > 0 && d.ViewNumber < 20 && !d.BlockSent() && h > 0 && !visited[n][h-1] && n.Timer.Resets > c.PreTimer.Resets {
				tpb, _ := n.BlockTimes()
				exp := tpb << (uint(d.ViewNumber) + 1)
				if d.IsPrimary() && !d.VerifFlags().Recovering {
					exp = tpb
				}
				w.Stat("c05_first_timer_checked_after_nested_view_change")
				if t := n.Timer; t.H != h || t.V != d.ViewNumber || t.D0 != exp {
					bad("stale-role-timing", "entered view %d inside the call (primary=%v); timer is (%d,%d,%s), want (%d,%d,%s): this instance never was at height %d, nothing may adjust it", d.ViewNumber, d.IsPrimary(), t.H, t.V, t.D0, h, d.ViewNumber, exp, h-1)
				}
			}
			N := len(want)
			M := refM(N)
			if d.ViewNumber != 0 {
				cnt := countDistinct(known(n, h), func(e Payload) bool {
					return e.T == dbft.ChangeViewType && e.Ht == h && authenticAt(w, e, h) && e.Body.(*vt.ChangeView).NewView >= d.ViewNumber
				})
				if cnt < M {
					bad("view-not-zero", "ViewNumber=%d without %d change views of the new height", d.ViewNumber, M)
				}
			}
			if int(d.PrimaryIndex) != refPrimary(h, d.ViewNumber, N) {
				bad("wrong-primary", "PrimaryIndex=%d, want %d", d.PrimaryIndex, refPrimary(h, d.ViewNumber, N))
			}
			tables := map[string][]dbft.ConsensusPayload[vt.H]{"PreparationPayloads": d.PreparationPayloads, "PreCommitPayloads": d.PreCommitPayloads, "CommitPayloads": d.CommitPayloads, "ChangeViewPayloads": d.ChangeViewPayloads, "LastChangeViewPayloads": d.LastChangeViewPayloads}
			before := seenBefore[n]
			for _, name := range []string{"PreparationPayloads", "PreCommitPayloads", "CommitPayloads", "ChangeViewPayloads", "LastChangeViewPayloads"} {
				t := tables[name]
				if len(t) != N {
					bad("table-length", "%s has length %d, want %d", name, len(t), N)
					continue
				}
				for i, e := range t {
					if e == nil {
						continue
					}
					p := e.(*vt.Payload)
					if p.Ht != h {
						bad("stale-table-entry", "%s[%d] holds a payload of height %d", name, i, p.Ht)
						continue
					}
					if int(p.Idx) != i {
						bad("misplaced-table-entry", "%s[%d] holds a payload of validator %d", name, i, p.Idx)
					}
					own := p.Author == n.ID
					if !own && !before[p] {
						bad("unknown-table-entry", "%s[%d] holds %s which was never delivered to this node", name, i, p.Summary())
					}
				}
			}
			if len(d.LastSeenMessage) != N {
				bad("table-length", "LastSeenMessage has length %d, want %d", len(d.LastSeenMessage), N)
			} else {
				for i, hv := range d.LastSeenMessage {
					if hv != nil && hv.Height != h {
						bad("stale-lastseen", "LastSeenMessage[%d] refers to height %d", i, hv.Height)
					}
				}
			}
			pi := refPrimary(h, d.ViewNumber, N)
			if d.PreparationPayloads[pi] == nil {
				if len(d.Transactions) != 0 || len(d.TransactionHashes) != 0 || len(d.MissingTransactions) != 0 {
					bad("stale-transactions", "no proposal held but Transactions=%d TransactionHashes=%d MissingTransactions=%d", len(d.Transactions), len(d.TransactionHashes), len(d.MissingTransactions))
				}
			}
			f := d.VerifFlags()
			accNow := len(n.Accepted[h]) > 0
			if f.BlockProcessed != accNow {
				bad("stale-blockprocessed", "blockProcessed=%v although accepted(height %d)=%v", f.BlockProcessed, h, accNow)
			}
			if f.TxSubscriptionOn {
				bad("stale-subscription", "the transaction subscription of the previous height is still on")
			}
			if f.PreBlockProcessed != (n.PreAccepted[h] > 0) {
				bad("stale-preblockprocessed", "preBlockProcessed=%v although pre-accepted=%v", f.PreBlockProcessed, n.PreAccepted[h] > 0)
			}
			for ch, e := range d.VerifCachedPayloads() {
				if ch < h {
					cnt := len(e[0]) + len(e[1]) + len(e[2]) + len(e[3])
					bad("D5-stale-cache-height", "future-message cache still holds %d payload(s) for past height %d", cnt, ch)
					break
				}
			}
			// positive direction: the correct view-0 proposal delivered early must have been taken into account
			if d.ViewNumber == 0 && n.Active() && !f.BlockProcessed {
				p0 := refPrimary(h, 0, N)
				var prop Payload
				clean := true
				for p := range before {
					if int(p.Idx) == p0 && p.Ht == h && authenticAt(w, p, h) && (p.T == dbft.PrepareRequestType || p.T == dbft.PrepareResponseType) {
						if p.T == dbft.PrepareRequestType && p.V == 0 && prop == nil {
							prop = p
						} else if p != prop {
							clean = false
						}
					}
				}
				if a := w.Nodes[want[p0]]; a == nil || a.Faulty {
					clean = false
				}
				// a payload whose validator index lies outside the list of the height the node
				// was at when it arrived is inadmissible there (C11), hence never kept
				for hh := w.Cfg.StartTip + 1; hh < h; hh++ {
					if p0 >= len(w.Cfg.Validators(hh)) {
						clean = false
					}
				}
				if prop != nil && clean && d.MyIndex != p0 {
					w.Stat("c05_early_proposal")
					if d.PreparationPayloads[p0] == nil {
						bad("early-proposal-lost", "the view-0 proposal %s delivered before %s is not held", prop.Summary(), c.Kind)
					}
				}
			}
			w.Stat("c05_reinit_checked")
			if c.Kind == CReset {
				if c.PreHeight+1 < h {
					w.Stat("c05_skipped_heights")
				}
				if len(before) > 0 {
					w.Stat("c05_early_traffic")
				}
			}
		},
	}
}

// ---- C07 anti-MEV phase discipline ----------------------------------------------

func MonC07() *Mon {
	type st struct {
		pcSent    map[uint32]bool
		committed map[uint32]bool
	}
	sts := map[*Node]*st{}
	get := func(n *Node) *st {
		s := sts[n]
		if s == nil {
			s = &st{pcSent: map[uint32]bool{}, committed: map[uint32]bool{}}
			sts[n] = s
		}
		return s
	}
	return &Mon{Name: "C07",
		Restarted: func(n *Node) { delete(sts, n) },
		Broadcast: func(n *Node, p Payload) {
			if n.Faulty {
				return
			}
			w, d := n.W, n.D
			h := d.BlockIndex
			s := get(n)
			on := w.Cfg.AMEVOn(h)
			switch p.T {
			case dbft.PreCommitType:
				if !on {
					w.Fail("C07", fmt.Sprintf("node %d height %d: pre-commit broadcast although anti-MEV is not enabled at this height", n.ID, h), "precommit-when-off")
					return
				}
				s.pcSent[h] = true
			case dbft.CommitType:
				if !on {
					return
				}
				if !s.pcSent[h] {
					w.Fail("C07", fmt.Sprintf("node %d height %d: commit broadcast without an own pre-commit", n.ID, h), "commit-without-own-precommit")
				}
				if n.PreAccepted[h] == 0 {
					w.Fail("C07", fmt.Sprintf("node %d height %d: commit broadcast before the pre-block callback succeeded", n.ID, h), "commit-before-preblock")
				}
				v := d.ViewNumber
				M := refM(len(d.Validators))
				isPC := func(e Payload) bool {
					return e.T == dbft.PreCommitType && e.Ht == h && e.V == v && authenticAt(w, e, h)
				}
				hc := countDistinct(known(n, h), isPC)
				tc := 0
				for _, e := range d.PreCommitPayloads {
					if e != nil && isPC(e.(*vt.Payload)) {
						tc++
					}
				}
				if hc < M || tc < M {
					w.Fail("C07", fmt.Sprintf("node %d height %d view %d: commit broadcast holding %d current-view pre-commits (%d ever delivered), M=%d", n.ID, h, v, tc, hc, M), "commit-without-precommit-quorum")
				}
				s.committed[h] = true
				w.Stat("c07_commit_checked")
			}
		},
		ProcessPreBlock: func(n *Node, pb *vt.PreBlock, err error) {
			w := n.W
			if !w.Cfg.AMEVOn(pb.Idx) {
				w.Fail("C07", fmt.Sprintf("node %d: pre-block callback invoked at height %d below the enabling height", n.ID, pb.Idx), "preblock-when-off")
				return
			}
			if n.PreAccepted[pb.Idx] > 0 && !n.Faulty {
				w.Fail("C07", fmt.Sprintf("node %d height %d: pre-block callback invoked again after it had succeeded", n.ID, pb.Idx), "preblock-twice")
			}
			if err != nil {
				w.Stat("c07_preblock_failed")
			}
		},
		NewPreBlock: func(n *Node, pb *vt.PreBlock) {
			if !n.W.Cfg.AMEVOn(pb.Idx) {
				n.W.Fail("C07", fmt.Sprintf("node %d: pre-block constructed at height %d below the enabling height", n.ID, pb.Idx), "newpreblock-when-off")
			}
		},
		SetData: func(n *Node, pb *vt.PreBlock) {
			if !n.W.Cfg.AMEVOn(pb.Idx) {
				n.W.Fail("C07", fmt.Sprintf("node %d: pre-commit data produced at height %d below the enabling height", n.ID, pb.Idx), "setdata-when-off")
			}
		},
		NewBlock: func(n *Node, b *vt.Block) {
			if n.W.Cfg.AMEVOn(b.Idx) && n.PreAccepted[b.Idx] == 0 {
				n.W.Fail("C07", fmt.Sprintf("node %d height %d: final block built before the pre-block callback succeeded", n.ID, b.Idx), "block-before-preblock")
			}
		},
		Sign: func(n *Node, b *vt.Block) {
			if !n.W.Cfg.AMEVOn(b.Idx) || n.Faulty {
				return
			}
			if n.PreAccepted[b.Idx] == 0 || !get(n).pcSent[b.Idx] {
				n.W.Fail("C07", fmt.Sprintf("node %d height %d: final block signed before own pre-commit / pre-block processing", n.ID, b.Idx), "sign-before-preblock")
			}
		},
		BeforeCall: func(n *Node, c *Call) {
			// anti-MEV off: a delivered pre-commit of the current height and view <= current must change nothing
			if c.Kind == CReceive && c.P.T == dbft.PreCommitType && n.D.Validators != nil && !n.W.Cfg.AMEVOn(n.D.BlockIndex) &&
				c.P.Ht == n.D.BlockIndex && c.P.V <= n.D.ViewNumber && int(c.P.Idx) < len(n.D.Validators) {
				c.fp = Fingerprint(n, FPOpt{NoLastSeen: true})
				c.fpSet = true
			}
		},
		AfterCall: func(n *Node, c *Call) {
			if c.fpSet {
				n.W.Stat("c07_precommit_while_off")
				if fp := Fingerprint(n, FPOpt{NoLastSeen: true}); fp != c.fp {
					n.W.Fail("C07", fmt.Sprintf("node %d height %d: pre-commit acted upon although anti-MEV is off: %s", n.ID, n.D.BlockIndex, FirstDiff(c.fp, fp)), "precommit-acted-when-off")
				}
			}
		},
	}
}

// ---- C12 requested transactions => answer ------------------------------------------

func MonC12() *Mon {
	type ob struct {
		h        uint32
		v        byte
		prop     vt.H
		asked    map[vt.H]bool
		supplied map[vt.H]bool
		other    int  // other events between supplies
		live     bool // preconditions held at the start of the current OnTransaction
		listSum  vt.H
		hashes   []vt.H // the proposal's transaction list
	}
	obs := map[*Node]*ob{}
	curProp := func(n *Node) (vt.H, bool) {
		d := n.D
		if d.Validators == nil {
			return vt.H{}, false
		}
		p := d.PreparationPayloads[d.PrimaryIndex]
		if p == nil || p.Type() != dbft.PrepareRequestType {
			return vt.H{}, false
		}
		return p.Hash(), true
	}
	stillIn := func(n *Node, o *ob) bool {
		d := n.D
		// "a backup" by the harness' own knowledge - the flag its application serves right now, its identity's place in
		// the validator list, the reference rotation - not by the library's IsBackup()/WatchOnly(), which are the subject
		// (seeded change C12k: the flag cached per view)
		if d.BlockIndex != o.h || d.ViewNumber != o.v || !n.Active() || n.IndexAt(d.BlockIndex) == refPrimary(d.BlockIndex, d.ViewNumber, len(d.Validators)) || d.BlockSent() {
			return false
		}
		if ph, ok := curProp(n); !ok || ph != o.prop {
			return false
		}
		if cv := d.ChangeViewPayloads[d.MyIndex]; cv != nil && cv.GetChangeView().NewViewNumber() > d.ViewNumber {
			return false // it has itself asked to leave the view
		}
		return true
	}
	return &Mon{Name: "C12",
		Restarted: func(n *Node) { delete(obs, n) },
		RequestTx: func(n *Node, hs []vt.H) {
			d := n.D
			if !n.Active() {
				// the proposal is being accepted by a node that is watch-only right now: not "a backup that has accepted
				// the proposal" - whatever it is handed while silent it may consume silently, also if the flag is cleared later
				delete(obs, n)
				return
			}
			// the proposal is stored right after processMissingTx; identify the obligation by (h, v, hashes requested)
			o := obs[n]
			if o == nil || o.h != d.BlockIndex || o.v != d.ViewNumber || vt.Sum(hashList(d.TransactionHashes)) != o.listSum {
				o = &ob{h: d.BlockIndex, v: d.ViewNumber, asked: map[vt.H]bool{}, supplied: map[vt.H]bool{}}
				o.listSum = vt.Sum(hashList(d.TransactionHashes))
				o.hashes = append([]vt.H(nil), d.TransactionHashes...)
				o.prop = o.listSum
				obs[n] = o
			}
			for _, h := range hs {
				o.asked[h] = true
			}
		},
		BeforeCall: func(n *Node, c *Call) {
			o := obs[n]
			if o == nil || n.Faulty {
				return
			}
			if c.Kind != CTransaction {
				o.other++
				return
			}
			if !n.Active() && o.asked[c.Tx.Hash()] {
				delete(obs, n) // a requested transaction handed over while the node is silent: consumed without an answer, by right
				return
			}
			// resolve the proposal hash lazily (it is stored after RequestTx returns)
			if ph, ok := curProp(n); ok && n.D.BlockIndex == o.h && n.D.ViewNumber == o.v && vt.Sum(hashList(n.D.TransactionHashes)) == o.listSum {
				o.prop = ph
			}
			o.live = stillIn(n, o)
		},
		AfterCall: func(n *Node, c *Call) {
			o := obs[n]
			if o == nil || c.Kind != CTransaction || n.Faulty {
				return
			}
			was := o.live
			o.live = false
			if !was {
				return
			}
			h := c.Tx.Hash()
			if !o.asked[h] {
				return
			}
			o.supplied[h] = true
			for a := range o.asked {
				if !o.supplied[a] {
					return
				}
			}
			// every requested transaction has been supplied while the node stayed in the view
			answered, responded, txInvalid := false, false, false
			for _, p := range n.Own[o.h] {
				if p.V != o.v {
					continue
				}
				if p.T == dbft.PrepareResponseType && p.Body.(*vt.PrepareResponse).Prep == o.prop {
					answered, responded = true, true
				}
				if p.T == dbft.ChangeViewType {
					answered = true
					if p.Body.(*vt.ChangeView).R == dbft.CVTxInvalid {
						txInvalid = true
					}
				}
			}
			// "... or with a change-view request if the completed block fails verification": a node that rejects the
			// completed block as invalid although the application accepts exactly that block answered wrongly
			if txInvalid && !responded && !n.RejectBlocks && !n.RejectHeights[o.h] {
				acceptable := true
				for _, th := range o.hashes {
					if tx, ok := n.W.TxByHash(th); !ok || tx.Poisoned() {
						acceptable = false
					}
				}
				if acceptable {
					n.W.Fail("C12", fmt.Sprintf("node %d height %d view %d: the completed block of proposal %s is acceptable to the application, yet the node asked for a view change with reason TxInvalid", n.ID, o.h, o.v, o.prop), "changeview-for-acceptable-block")
				}
			}
			// ... and the converse: a prepare response for a completed block the application rejects for sure
			if responded {
				bad := n.RejectBlocks || n.RejectHeights[o.h]
				for _, th := range o.hashes {
					if tx, ok := n.W.TxByHash(th); ok && tx.Poisoned() {
						bad = true
					}
				}
				if bad {
					n.W.Fail("C12", fmt.Sprintf("node %d height %d view %d: the completed block of proposal %s is rejected by the application's verification, yet the node answered with a PrepareResponse", n.ID, o.h, o.v, o.prop), "response-for-unacceptable-block")
				}
			}
			if len(o.asked) >= 2 && o.other > 0 {
				n.W.Stat("c12_nontrivial")
			}
			n.W.Stat("c12_obligation_checked")
			if !answered {
				n.W.Fail("C12", fmt.Sprintf("node %d height %d view %d: all %d requested transactions were supplied but the proposal %s was answered neither by a PrepareResponse nor by a ChangeView", n.ID, o.h, o.v, len(o.asked), o.prop), "no-answer-after-all-supplied")
			}
			if cur := obs[n]; cur == o {
				delete(obs, n)
			} else {
				n.W.Stat("c12_nested_new_proposal")
			}
		},
	}
}

func hashList(hs []vt.H) []byte {
	var b []byte
	for _, h := range hs {
		b = append(b, h[:]...)
	}
	return b
}

// ---- C13 watch-only nodes are silent -------------------------------------------------

func MonC13() *Mon {
	// by the harness' own knowledge (the flag its callback serves right now, its identity's place in the list of the
	// height), not by what the library's context says about itself
	isWatch := func(n *Node) bool {
		return n.D.Validators != nil && (n.WatchFlag || n.IndexAt(n.D.BlockIndex) < 0 || n.KeyGone())
	}
	return &Mon{Name: "C13",
		Broadcast: func(n *Node, p Payload) {
			if isWatch(n) {
				key := "watchonly-broadcast"
				if n.Cur != nil && n.Cur.Kind == CStart {
					key = "D2-watchonly-broadcast-on-start"
				}
				n.W.Fail("C13", fmt.Sprintf("watch-only node %d (index %d, flag %v) broadcast %s", n.ID, n.D.MyIndex, n.WatchFlag, p.Summary()), key)
			}
		},
		Sign: func(n *Node, b *vt.Block) {
			if isWatch(n) {
				n.W.Fail("C13", fmt.Sprintf("watch-only node %d produced a block signature at height %d", n.ID, b.Idx), "watchonly-sign")
			}
		},
		SetData: func(n *Node, b *vt.PreBlock) {
			if isWatch(n) {
				n.W.Fail("C13", fmt.Sprintf("watch-only node %d produced pre-commit data at height %d", n.ID, b.Idx), "watchonly-setdata")
			}
		},
		AfterCall: func(n *Node, c *Call) {
			if isWatch(n) {
				n.W.Stat("c13_watch_call")
				if n.IndexAt(n.D.BlockIndex) >= 0 && refPrimary(n.D.BlockIndex, n.D.ViewNumber, len(n.D.Validators)) == n.IndexAt(n.D.BlockIndex) {
					n.W.Stat("c13_watch_is_primary")
				}
			}
		},
	}
}

var _ = time.Second
