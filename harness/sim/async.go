package sim

import (
	"bytes"
	"fmt"
	"sort"
	"time"

	"github.com/nspcc-dev/dbft"
	"github.com/nspcc-dev/dbft/verifharness/vt"
)

// Action kinds of the adversarial-asynchronous driver.
const (
	aDeliver = iota
	aDrop
	aDup
	aTimeout
	aStale
	aTick
	aNewTx
	aSupplyTx
	aBadTx
	aReset
	aSync
	aCut
	aHeal
	aCrash
	aRestart
	aByz
	aReplay
	aProbe
	aRedeliver
	numActs
)

var actNames = [...]string{"deliver", "drop", "dup", "timeout", "stale", "tick", "newtx", "supplytx", "badtx", "reset", "sync", "cut", "heal", "crash", "restart", "byz", "replay", "probe", "redeliver"}

// Profile is a scheduler strategy.
type Profile struct {
	Name        string
	W           [numActs]int
	Favoured    bool // one node receives with priority
	PromptReset int  // percent: reset immediately after the ledger advanced
	NewestBias  int  // percent: pick among the newest in-flight items
	// EquivFocus: the Byzantine validators do little else than help views change (a ChangeView for the next view once per
	// view) and, whenever one of them is the primary of the most advanced view of a height, equivocate there once - also
	// towards nodes that lag behind in a lower view.  Nothing is dropped.  Makes forks that need an equivocating primary of
	// a view > 0 and a lagging victim a matter of thousands of runs instead of millions.
	EquivFocus bool
	// HoldCommits: commits travel slowly except towards one favoured node, and timers fire often: the favoured node
	// decides early on M commits while the others, locked by their own commit, are pressed to change view for a long
	// time - what a broken commit lock turns into a fork without any faulty validator (seeded changes C01k, C01j).
	HoldCommits bool
}

var profiles = []Profile{
	{Name: "fair", W: [numActs]int{aDeliver: 60, aDrop: 1, aDup: 3, aTimeout: 3, aStale: 1, aTick: 3, aNewTx: 2, aSupplyTx: 8, aBadTx: 1, aReset: 8, aSync: 1, aByz: 6, aReplay: 2}, PromptReset: 70, NewestBias: 50},
	{Name: "lossy", W: [numActs]int{aDeliver: 50, aDrop: 15, aDup: 3, aTimeout: 8, aStale: 1, aTick: 3, aNewTx: 2, aSupplyTx: 8, aBadTx: 1, aReset: 8, aSync: 3, aByz: 6, aReplay: 2}, PromptReset: 60, NewestBias: 40},
	{Name: "storm", W: [numActs]int{aDeliver: 45, aDrop: 3, aDup: 3, aTimeout: 25, aStale: 3, aTick: 5, aNewTx: 2, aSupplyTx: 6, aBadTx: 1, aReset: 6, aSync: 2, aByz: 8, aReplay: 2}, PromptReset: 60, NewestBias: 40},
	{Name: "favoured", W: [numActs]int{aDeliver: 60, aDrop: 2, aDup: 3, aTimeout: 8, aStale: 1, aTick: 3, aNewTx: 2, aSupplyTx: 8, aBadTx: 1, aReset: 6, aSync: 2, aByz: 8, aReplay: 2}, Favoured: true, PromptReset: 50, NewestBias: 30},
	{Name: "split", W: [numActs]int{aDeliver: 55, aDrop: 2, aDup: 3, aTimeout: 10, aStale: 1, aTick: 3, aNewTx: 2, aSupplyTx: 8, aBadTx: 1, aReset: 6, aSync: 3, aCut: 3, aHeal: 3, aByz: 8, aReplay: 2}, PromptReset: 60, NewestBias: 40},
	{Name: "byzheavy", W: [numActs]int{aDeliver: 50, aDrop: 2, aDup: 4, aTimeout: 8, aStale: 1, aTick: 3, aNewTx: 2, aSupplyTx: 8, aBadTx: 1, aReset: 6, aSync: 2, aByz: 25, aReplay: 4}, PromptReset: 60, NewestBias: 40},
	{Name: "latereset", W: [numActs]int{aDeliver: 60, aDrop: 1, aDup: 4, aTimeout: 4, aStale: 1, aTick: 3, aNewTx: 2, aSupplyTx: 8, aBadTx: 1, aReset: 1, aSync: 1, aByz: 6, aReplay: 6}, PromptReset: 0, NewestBias: 60},
	{Name: "equivfocus", W: [numActs]int{aDeliver: 70, aDup: 2, aTimeout: 7, aTick: 2, aNewTx: 1, aSupplyTx: 6, aReset: 6, aByz: 12, aReplay: 1}, PromptReset: 60, NewestBias: 30, EquivFocus: true},
	{Name: "lockpressure", W: [numActs]int{aDeliver: 55, aDup: 2, aTimeout: 22, aStale: 1, aTick: 3, aNewTx: 1, aSupplyTx: 6, aReset: 5, aSync: 1, aByz: 4, aReplay: 2}, PromptReset: 50, NewestBias: 30, HoldCommits: true},
	{Name: "crashy", W: [numActs]int{aDeliver: 55, aDrop: 2, aDup: 3, aTimeout: 10, aStale: 1, aTick: 3, aNewTx: 2, aSupplyTx: 8, aBadTx: 1, aReset: 6, aSync: 3, aCrash: 2, aRestart: 4, aByz: 6, aReplay: 2}, PromptReset: 60, NewestBias: 40},
}

// AsyncOpts bound and shape a run.
type AsyncOpts struct {
	Steps       int
	Heights     int  // stop when every live non-faulty node reached StartTip+Heights and re-initialised
	NoByz       bool // never emit Byzantine payloads even if identities exist
	NoRestart   bool
	NoSync      bool
	NoCut       bool
	NoLoss      bool // no drop
	InitialTxs  int
	ProfileOnly string // force a profile by name
	// AvoidKnown lists known-finding keys whose triggering shape must not be produced.
	Avoid map[string]bool
	// Probes is the weight of C11 probe actions (0: none).
	Probes int
	// FlagFlips: once per run the application of a validator that has been taking part sets its watch-only flag, between
	// two calls, in the middle of a view (the flag is a callback: the library must see it at once).
	FlagFlips bool
}

// Async is the adversarial-asynchronous driver.
type Async struct {
	W        *World
	O        AsyncOpts
	P        Profile
	fav      int
	flipped  bool
	cleared  bool
	keyGone  bool
	restarts int
	focusDone map[[3]uint32]bool
}

func (a *Async) r(label string, n int) int {
	if n <= 1 {
		return 0
	}
	return a.W.R.Intn(label, n)
}
func (a *Async) pct(label string, p int) bool {
	if p <= 0 {
		return false
	}
	if p >= 100 {
		return true
	}
	return Scramble(a.W.R.Intn(label, 100), 100) < p
}

// Scramble spreads a draw over [0,n) with a fixed multiplicative permutation
// (0 stays 0). rapid's integer generators favour small values; without this
// the first alternatives of every weighted choice would be over-represented.
func Scramble(x, n int) int {
	if n <= 2 {
		return x
	}
	a := n*618/1000 + 1
	for gcd(a, n) != 1 {
		a++
	}
	return int(int64(x) * int64(a) % int64(n))
}

func gcd(a, b int) int {
	for b != 0 {
		a, b = b, a%b
	}
	return a
}

// RunAsync drives the world until the step budget, the height goal or a violation.
func RunAsync(w *World, o AsyncOpts) *Async {
	a := &Async{W: w, O: o}
	pi := Scramble(a.r("profile", len(profiles)), len(profiles))
	if o.ProfileOnly != "" {
		for i, p := range profiles {
			if p.Name == o.ProfileOnly {
				pi = i
			}
		}
	}
	a.P = profiles[pi]
	a.P.W[aProbe], a.P.W[aRedeliver] = o.Probes, o.Probes/2
	if w.FaultBudget > 0 {
		a.P.W[aCrash] = max(a.P.W[aCrash], 3)
		a.P.W[aRestart] = max(a.P.W[aRestart], 6)
	}
	w.Stat("profile_" + a.P.Name)
	live := w.Live()
	a.fav = live[a.r("fav", len(live))].ID
	// initial transactions, each known to a drawn subset of nodes
	for i := 0; i < o.InitialTxs; i++ {
		tx := w.NewTx(false)
		mask := a.r("txmask", 1<<uint(min(len(live), 8)))
		for k, n := range live {
			if mask&(1<<uint(k%8)) != 0 || k >= 8 {
				n.AddTx(tx)
			}
		}
	}
	w.StartAll()
	for w.Step = 1; w.Step <= o.Steps && len(w.Viols) == 0; w.Step++ {
		if a.goalReached() {
			break
		}
		a.step()
	}
	w.Finish()
	return a
}

func (a *Async) goalReached() bool {
	if a.O.Heights <= 0 {
		return false
	}
	for _, n := range a.W.Nodes {
		if n == nil || n.Crashed {
			continue
		}
		if n.Tip < a.W.Cfg.StartTip+uint32(a.O.Heights) || n.NeedInit {
			return false
		}
	}
	return true
}

func (a *Async) enabled(k int) bool {
	w := a.W
	switch k {
	case aDeliver, aDup:
		return len(w.Flight) > 0
	case aDrop:
		return len(w.Flight) > 0 && !a.O.NoLoss
	case aTimeout:
		for _, n := range w.Live() {
			if n.Timer.Pending {
				return true
			}
		}
		return false
	case aStale, aTick, aNewTx, aBadTx:
		return true
	case aSupplyTx:
		for _, n := range w.Live() {
			if len(Wanted(n)) > 0 {
				return true
			}
		}
		return false
	case aReset:
		for _, n := range w.Live() {
			if n.NeedInit {
				return true
			}
		}
		return false
	case aSync:
		return !a.O.NoSync && a.syncCandidate() != nil
	case aCut:
		return !a.O.NoCut && len(w.Cut) == 0
	case aHeal:
		return len(w.Cut) > 0
	case aCrash:
		if a.O.NoRestart || w.FaultBudget <= 0 {
			return false
		}
		return a.restartCandidate(false) != nil
	case aRestart:
		if a.O.NoRestart {
			return false
		}
		return a.restartCandidate(true) != nil
	case aByz:
		return !a.O.NoByz && len(w.Byz) > 0
	case aReplay:
		return len(w.Sent) > 0
	case aProbe, aRedeliver:
		return len(w.Live()) > 0
	}
	return false
}

// restartCandidate: crashed==true looks for a crashed node to restart;
// otherwise for a live node that may be crashed within the fault budget.
func (a *Async) restartCandidate(crashed bool) *Node {
	var c []*Node
	for _, n := range a.W.Nodes {
		if n == nil {
			continue
		}
		if crashed && n.Crashed && n.Faulty {
			c = append(c, n)
		}
		if !crashed && !n.Crashed && (n.Faulty || a.W.FaultBudget > 0) && n.IndexAt(n.Tip+1) >= 0 {
			c = append(c, n)
		}
	}
	if len(c) == 0 {
		return nil
	}
	return c[a.r("node", len(c))]
}

func (a *Async) syncCandidate() *Node {
	w := a.W
	for _, n := range w.Live() {
		for _, p := range w.Honest() {
			if p.Tip > n.Tip && p.Chain[n.Tip+1] != nil {
				return n
			}
		}
	}
	return nil
}

func (a *Async) step() {
	w := a.W
	if a.O.FlagFlips && !a.flipped && a.pct("flagflip", 2) {
		var cand []*Node
		for _, n := range w.Live() {
			if !n.WatchFlag && !n.Faulty && n.D.Validators != nil && n.D.MyIndex >= 0 && len(n.Own[n.D.BlockIndex]) > 0 {
				cand = append(cand, n) // it has spoken at this height: a validator with a past
			}
		}
		if len(cand) > 0 {
			// preferably a node that has committed itself already: silenced, it follows the others to the next view with
			// its commit stored, and when re-enabled there it must not commit itself to anything else
			var locked []*Node
			for _, n := range cand {
				if n.D.CommitPayloads[n.D.MyIndex] != nil || n.D.PreCommitPayloads[n.D.MyIndex] != nil {
					locked = append(locked, n)
				}
			}
			if len(locked) > 0 && a.pct("fliplocked", 70) {
				cand = locked
				w.Stat("watch_flag_set_on_committed_node")
			}
			n := cand[a.r("flipnode", len(cand))]
			n.WatchFlag = true
			a.flipped = true
			w.Stat("watch_flag_set_mid_view")
			w.act("node %d sets its watch-only flag at (%d,%d)", n.ID, n.D.BlockIndex, n.D.ViewNumber)
		}
	}
	if a.O.FlagFlips && !a.keyGone && a.pct("keywithdrawn", 2) {
		// the application withdraws a validator's key in the middle of a height (GetKeyPair answers -1 from now on): the
		// library learns it at its next (re)initialisation - view change or height - and is an observer from then on
		// (seeded change C13l: the key pair looked up once per height)
		var cand []*Node
		for _, n := range w.Live() {
			if !n.WatchFlag && !n.Faulty && !n.KeyWithdrawn && n.D.Validators != nil && n.D.MyIndex >= 0 && !n.D.BlockSent() {
				cand = append(cand, n)
			}
		}
		if len(cand) > 0 {
			n := cand[a.r("keynode", len(cand))]
			n.KeyWithdrawn, n.KeyWithdrawnH, n.KeyWithdrawnV = true, n.D.BlockIndex, n.D.ViewNumber
			a.keyGone = true
			w.Stat("key_withdrawn_mid_height")
			w.act("node %d: the application withdraws its key at (%d,%d)", n.ID, n.D.BlockIndex, n.D.ViewNumber)
		}
	}
	if !a.cleared && a.pct("flagclear", 2) {
		// the converse: the operator re-enables a validator that has been running with the flag set - between two
		// calls, in the middle of a view; from the next call on it is an ordinary validator (seeded change C12k)
		var cand []*Node
		for _, n := range w.Live() {
			if n.WatchFlag && !n.Faulty && n.D.Validators != nil && n.D.MyIndex >= 0 && !n.D.BlockSent() {
				cand = append(cand, n)
			}
		}
		if len(cand) > 0 {
			n := cand[a.r("clearnode", len(cand))]
			n.WatchFlag = false
			n.FlagCleared, n.FlagClearedH, n.FlagClearedV = true, n.D.BlockIndex, n.D.ViewNumber
			a.cleared = true
			w.Stat("watch_flag_cleared_mid_view")
			w.act("node %d clears its watch-only flag at (%d,%d)", n.ID, n.D.BlockIndex, n.D.ViewNumber)
		}
	}
	total := 0
	var en [numActs]bool
	for k := 0; k < numActs; k++ {
		if a.P.W[k] > 0 && a.enabled(k) {
			en[k] = true
			total += a.P.W[k]
		}
	}
	if total == 0 {
		w.Clock = w.Clock.Add(w.Cfg.TimePerBlock / 4)
		return
	}
	x := Scramble(a.r("act", total), total)
	k := 0
	for ; k < numActs; k++ {
		if !en[k] {
			continue
		}
		if x < a.P.W[k] {
			break
		}
		x -= a.P.W[k]
	}
	switch k {
	case aDeliver:
		a.deliver(false)
	case aDup:
		a.deliver(true)
	case aDrop:
		i := a.pickFlight()
		m := w.removeFlight(i)
		w.Stat("drop")
		w.act("drop %d->%d %s", m.From, m.To, m.P.Summary())
	case aTimeout:
		var c []*Node
		for _, n := range w.Live() {
			if n.Timer.Pending {
				c = append(c, n)
			}
		}
		n := c[a.r("node", len(c))]
		if a.pct("jump", 50) && n.Timer.Deadline().After(n.Now()) {
			w.Clock = w.Clock.Add(n.Timer.Deadline().Sub(n.Now()))
		}
		w.Stat("timeout")
		w.FireTimer(n)
		a.afterCall(n)
	case aStale:
		live := w.Live()
		n := live[a.r("node", len(live))]
		h, v := n.D.BlockIndex, n.D.ViewNumber
		switch a.r("stalekind", 4) {
		case 0:
			h--
		case 1:
			h++
		case 2:
			v++
		case 3:
			if v > 0 {
				v--
			} else {
				h += 2
			}
		}
		w.Stat("stale_timeout")
		w.act("staleTimeout(%d) h=%d v=%d", n.ID, h, v)
		n.Timeout(h, v)
	case aTick:
		d := w.Cfg.TimePerBlock * time.Duration(1+a.r("tick", 8)) / 4
		w.Clock = w.Clock.Add(d)
		w.act("tick %s", d)
	case aNewTx:
		tx := w.NewTx(a.pct("poisonpool", 8)) // now and then the pools hold a transaction no block may contain
		live := w.Live()
		mask := a.r("txmask", 1<<uint(min(len(live), 8)))
		w.act("newTx %x mask=%b", uint64(tx), mask)
		for i, n := range live {
			if mask&(1<<uint(i%8)) != 0 {
				if n.AddTx(tx) && n.Subscribed {
					n.Subscribed = false
					n.NewTransaction()
					a.afterCall(n)
				}
			}
		}
	case aSupplyTx:
		var c []*Node
		for _, n := range w.Live() {
			if len(Wanted(n)) > 0 {
				c = append(c, n)
			}
		}
		n := c[a.r("node", len(c))]
		wl := Wanted(n)
		h := wl[a.r("missing", len(wl))]
		if tx, ok := w.TxByHash(h); ok {
			if _, have := n.Pool[h]; !have && a.pct("poolfirst", 20) {
				// the transaction reaches the pool first, the notification follows later
				w.Stat("tx_pool_before_notification")
				w.act("poolTx(%d) %x", n.ID, uint64(tx))
				n.AddTx(tx)
				break
			}
			w.Stat("supply_tx")
			w.act("supplyTx(%d) %x", n.ID, uint64(tx))
			delete(n.Want, h)
			n.Transaction(tx)
			a.afterCall(n)
		} else {
			delete(n.Want, h) // a hash nobody can supply (Byzantine proposal)
		}
	case aBadTx:
		live := w.Live()
		n := live[a.r("node", len(live))]
		var tx vt.Tx
		if len(w.Universe) > 0 && a.pct("known", 60) {
			tx = w.Universe[a.r("tx", len(w.Universe))]
		} else {
			tx = w.NewTx(a.pct("poison", 20))
		}
		w.act("unsolicitedTx(%d) %x", n.ID, uint64(tx))
		w.Stat("unsolicited_tx")
		n.Transaction(tx)
		a.afterCall(n)
	case aReset:
		var c []*Node
		for _, n := range w.Live() {
			if n.NeedInit {
				c = append(c, n)
			}
		}
		n := c[a.r("node", len(c))]
		w.act("reset(%d) tip=%d", n.ID, n.Tip)
		n.Reset()
		a.afterCall(n)
	case aSync:
		n := a.syncCandidate()
		var peers []*Node
		for _, p := range w.Honest() {
			if p.Tip > n.Tip && p.Chain[n.Tip+1] != nil {
				peers = append(peers, p)
			}
		}
		p := peers[a.r("peer", len(peers))]
		if w.SyncFrom(n, p, 1+a.r("skip", 3)) > 0 {
			w.Stat("sync")
			if a.pct("promptreset", a.P.PromptReset) {
				w.act("reset(%d) tip=%d", n.ID, n.Tip)
				n.Reset()
				a.afterCall(n)
			}
		}
	case aCut:
		live := w.Live()
		mask := 1 + a.r("cutmask", (1<<uint(min(len(live), 8)))-1)
		for i, n := range live {
			if mask&(1<<uint(i%8)) != 0 {
				w.Cut[n.ID] = true
			}
		}
		if len(w.Cut) == len(live) {
			w.Cut = map[int]bool{}
		} else {
			// everything in flight that crosses the cut is lost
			kept := w.Flight[:0]
			for _, m := range w.Flight {
				if w.linked(m.From, m.To) {
					kept = append(kept, m)
				}
			}
			w.Flight = kept
			w.Stat("cut")
			w.act("cut mask=%b", mask)
		}
	case aHeal:
		w.Cut = map[int]bool{}
		w.act("heal")
	case aCrash:
		n := a.restartCandidate(false)
		if !n.Faulty {
			w.FaultBudget--
			n.Faulty = true
		}
		n.Crashed = true
		w.Stat("crash")
		w.act("crash(%d)", n.ID)
	case aRestart:
		n := a.restartCandidate(true)
		w.Stat("restart")
		w.Restart(n)
		a.afterCall(n)
	case aByz:
		a.byz()
	case aProbe:
		a.probeInadmissible()
	case aRedeliver:
		a.probeRedeliver()
	case aReplay:
		p := w.Sent[a.r("sent", len(w.Sent))]
		live := w.Live()
		n := live[a.r("node", len(live))]
		if d := n.D; d.Validators != nil && a.pct("staleindex", 25) {
			// a payload of the NEXT height under a validator index that exists now but not in that height's (shorter)
			// list: the sender's index of this height.  Admissible for caching now - the index can only be checked
			// against the list the node has - and inadmissible when the node gets there (seeded change C11k).
			h := d.BlockIndex
			if cur, next := w.Cfg.Validators(h), w.Cfg.Validators(h+1); len(next) < len(cur) {
				idx := len(next) + a.r("idx", len(cur)-len(next))
				var body any
				t := []dbft.MessageType{dbft.ChangeViewType, dbft.CommitType, dbft.PrepareResponseType, dbft.RecoveryRequestType}[a.r("ptype", 4)]
				switch t {
				case dbft.ChangeViewType:
					body = &vt.ChangeView{NewView: 1, Ts: 1}
				case dbft.CommitType:
					body = &vt.Commit{Sig: vt.Mac("garbage", a.r("x", 50), nil)}
				case dbft.PrepareResponseType:
					body = &vt.PrepareResponse{}
				default:
					body = &vt.RecoveryRequest{Ts: 1}
				}
				sp := vt.New(t, h+1, 0, uint16(idx), cur[idx], body)
				w.Stat("next_height_payload_under_vanishing_index")
				w.act("stale index ->%d %s", n.ID, sp.Summary())
				n.Receive(sp)
				a.afterCall(n)
				break
			}
		}
		if p.Author != n.ID {
			w.Stat("replay")
			w.act("replay ->%d %s", n.ID, p.Summary())
			n.Receive(p)
			a.afterCall(n)
		}
	}
}

func (a *Async) afterCall(n *Node) {
	if n.NeedInit && !n.Crashed && a.pct("promptreset", a.P.PromptReset) {
		a.W.act("reset(%d) tip=%d", n.ID, n.Tip)
		n.Reset()
	}
}

func (a *Async) pickFlight() int {
	w := a.W
	nf := len(w.Flight)
	if a.P.Favoured && a.pct("favpick", 80) {
		var c []int
		for i, m := range w.Flight {
			if m.To == a.fav {
				c = append(c, i)
				if len(c) >= 16 {
					break
				}
			}
		}
		if len(c) > 0 {
			return c[a.r("flight", len(c))]
		}
	}
	if a.P.HoldCommits && a.pct("holdcommits", 85) {
		// (proposals are slow too, half of the time: backups that have already asked for a view change when the
		// proposal and the responses finally arrive still prepare and commit in the old view)
		holdProp := a.pct("holdproposal", 50)
		var c []int
		for i, m := range w.Flight {
			if (m.P.T != dbft.CommitType || m.To == a.fav) && (m.P.T != dbft.PrepareRequestType || !holdProp) {
				c = append(c, i)
				if len(c) >= 32 {
					break
				}
			}
		}
		if len(c) > 0 {
			return c[a.r("flight", len(c))]
		}
	}
	x := a.r("flightmode", 100)
	win := min(nf, 2*len(w.Nodes))
	switch {
	case x < a.P.NewestBias:
		return nf - 1 - a.r("flight", win)
	case x < a.P.NewestBias+25:
		return a.r("flight", win)
	default:
		return a.r("flight", nf)
	}
}

func (a *Async) deliver(keep bool) {
	w := a.W
	i := a.pickFlight()
	m := w.Flight[i]
	n := w.Nodes[m.To]
	// leftovers of finished heights are mostly purged (a few are delivered on purpose)
	if n != nil && !n.Crashed && m.P.Ht < n.D.BlockIndex && !a.pct("deliverold", 25) {
		w.removeFlight(i)
		w.Stat("purged_old")
		return
	}
	if n != nil && !n.Crashed {
		if m.P.Ht > n.D.BlockIndex || (m.P.Ht == n.D.BlockIndex && m.P.V > n.D.ViewNumber) {
			w.Stat("early_delivery")
		}
	}
	w.Deliver(i, keep)
	if n != nil {
		a.afterCall(n)
	}
}

// ---- Byzantine grammar ---------------------------------------------------
//
// Sound with respect to "cannot forge others": every fabricated payload
// carries the adversary's own validator index and Author; embedded payloads
// of recovery messages are honest originals or own fabrications.

func (a *Async) byz() {
	w := a.W
	j := w.Byz[a.r("byzid", len(w.Byz))]
	honest := w.Live()
	if len(honest) == 0 {
		return
	}
	t := honest[a.r("target", len(honest))]
	h, v := t.D.BlockIndex, t.D.ViewNumber
	switch a.r("hv", 10) {
	case 0:
		h++
	case 1:
		v++
	case 2:
		if v > 0 {
			v--
		}
	}
	idx := -1
	for i, id := range w.Cfg.Validators(h) {
		if id == j {
			idx = i
		}
	}
	if idx < 0 {
		return
	}
	if a.P.EquivFocus && a.pct("focus", 85) {
		h = t.D.BlockIndex
		v = 0
		for _, n := range honest {
			if n.D.BlockIndex == h && n.D.ViewNumber > v {
				v = n.D.ViewNumber
			}
		}
		idx = -1
		for i, id := range w.Cfg.Validators(h) {
			if id == j {
				idx = i
			}
		}
		if idx < 0 {
			return
		}
		if a.focusDone == nil {
			a.focusDone = map[[3]uint32]bool{}
		}
		k := [3]uint32{h, uint32(v), uint32(j)}
		if a.focusDone[k] {
			return
		}
		a.focusDone[k] = true
		if idx == refPrimary(h, v, len(w.Cfg.Validators(h))) {
			a.equivocate(j, idx, h, v, honest)
			return
		}
		cv := vt.New(dbft.ChangeViewType, h, v, uint16(idx), j, &vt.ChangeView{NewView: v + 1, Ts: uint64(w.Clock.UnixNano())})
		w.Stat("byz_focus_changeview")
		w.act("byz(%d) asks for view %d at height %d", j, v+1, h)
		for _, n := range honest {
			w.send(cv, j, n.ID)
		}
		return
	}
	if idx == refPrimary(h, v, len(w.Cfg.Validators(h))) && h == t.D.BlockIndex && v == t.D.ViewNumber && !t.D.RequestSentOrReceived() && !t.D.BlockSent() &&
		a.pct("replay", 30) && a.replayRecovery(j, idx, h, v, t) {
		return
	}
	if idx == refPrimary(h, v, len(w.Cfg.Validators(h))) && h == t.D.BlockIndex && v == t.D.ViewNumber && a.pct("equivocate", 35) {
		a.equivocate(j, idx, h, v, honest)
		return
	}
	p := a.fabricate(j, idx, h, v, t, true)
	if p == nil {
		return
	}
	w.Stat("byz_" + vt.ShortType(p.T))
	// recipients: target always (immediately or via flight), others by mask
	mask := a.r("rcpt", 1<<uint(min(len(honest), 8)))
	w.act("byz(%d) %s -> target %d mask=%b", j, p.Summary(), t.ID, mask)
	for i, n := range honest {
		if n == t {
			continue
		}
		if mask&(1<<uint(i%8)) != 0 {
			w.send(p, j, n.ID)
		}
	}
	if a.pct("byznow", 70) {
		t.Receive(p)
		a.afterCall(t)
	} else {
		w.send(p, j, t.ID)
	}
}

// equivocate: the Byzantine primary of (h,v) hands proposal A to one drawn part of the honest
// nodes at once, leaves a different proposal B in flight for the rest, and puts its own valid
// commits (pre-commits) for A and for B in flight to the respective parts. Whether the parts'
// commits overtake the other proposal is up to the scheduler.
func (a *Async) equivocate(j, idx int, h uint32, v byte, honest []*Node) {
	w := a.W
	var at []*Node
	for _, n := range honest {
		if n.D.BlockIndex == h && n.D.ViewNumber == v && !n.D.RequestSentOrReceived() {
			at = append(at, n)
		}
	}
	if len(at) == 0 {
		return
	}
	// nodes of the height that lag behind in a lower view (and are not locked there) always belong to the
	// B part: B and the commit for it wait in flight (the library keeps them aside until the node enters
	// the view), while the A part's commits of the higher view may reach them first
	nfront := len(at)
	for _, n := range honest {
		if n.D.BlockIndex == h && n.D.ViewNumber < v && !n.D.CommitSent() && !n.D.PreCommitSent() && !n.D.BlockSent() {
			at = append(at, n)
		}
	}
	if len(at) < 2 {
		return
	}
	if len(at) > nfront {
		w.Stat("byz_equivocation_with_lagging_nodes")
	}
	mask := 1 + a.r("eqmask", (1<<uint(min(nfront, 8)))-2+min(len(at)-nfront, 1))
	if len(at) > nfront && a.pct("eqallfront", 60) {
		mask = 1<<uint(min(nfront, 8)) - 1 // with F Byzantine validators a quorum for A usually needs every node of the front
	}
	if nfront > 8 {
		nfront = 8
	}
	mask &= 1<<uint(nfront) - 1 // laggards never get A at once
	if mask == 0 {
		mask = 1
	}
	ts := at[0].TipTs + w.Cfg.TsIncrement
	var last []vt.H
	mkProp := func(nonce uint64) Payload {
		var hs []vt.H
		if len(w.Universe) > 0 && a.pct("eqtx", 40) {
			hs = append(hs, w.Universe[a.r("tx", len(w.Universe))].Hash())
		}
		if nonce >= 2000 && a.pct("eqsametx", 60) {
			hs = append([]vt.H(nil), last...) // B differs from A in the nonce only
		}
		last = hs
		p := vt.New(dbft.PrepareRequestType, h, v, uint16(idx), j, &vt.PrepareRequest{Ts: ts, N: nonce, Hashes: hs})
		w.Proposals = append(w.Proposals, p)
		return p
	}
	pa, pb := mkProp(uint64(1000+w.Step)), mkProp(uint64(2000+w.Step))
	follow := func(p Payload, to *Node) {
		hd := headerOf(p, a.tipHashFor(to, h))
		if w.Cfg.AMEVOn(h) {
			pbk := &vt.PreBlock{Header: hd}
			w.send(vt.New(dbft.PreCommitType, h, v, uint16(idx), j, &vt.PreCommit{D: pbk.DataFor(j)}), j, to.ID)
		}
		b := &vt.Block{Header: hd, AMEV: w.Cfg.AMEVOn(h)}
		w.send(vt.New(dbft.CommitType, h, v, uint16(idx), j, &vt.Commit{Sig: b.SignFor(j)}), j, to.ID)
	}
	w.Stat("byz_equivocation")
	w.act("byz(%d) equivocates at (%d,%d): A=%s to mask %b at once, B=%s in flight to the rest", j, h, v, pa.Summary(), mask, pb.Summary())
	for i, n := range at {
		if n.D.ViewNumber == v && mask&(1<<uint(i%8)) != 0 {
			follow(pa, n)
			n.Receive(pa)
			a.afterCall(n)
		} else {
			w.send(pb, j, n.ID)
			follow(pb, n)
		}
	}
}

// replayRecovery: the Byzantine primary of (h,v) sends a node that holds no proposal yet one recovery message made of
// another proposal of its own for (h,v) and the honest validators' genuine commits of that view (signed for whatever
// they committed to), followed by its own valid commit for that proposal.  Harmless as long as every commit is
// checked against the proposal it arrives with.
func (a *Async) replayRecovery(j, idx int, h uint32, v byte, t *Node) bool {
	w := a.W
	var commits []Payload
	seen := map[uint16]bool{}
	for _, p := range w.Sent {
		if p.Ht == h && p.V == v && p.T == dbft.CommitType && !seen[p.Idx] {
			seen[p.Idx] = true
			commits = append(commits, p)
		}
	}
	if len(commits) == 0 {
		return false
	}
	var hs []vt.H
	if c := a.proposalsAt(h, int(v)); len(c) > 0 && a.pct("replaysametx", 50) {
		hs = append(hs, c[a.r("prop", len(c))].Body.(*vt.PrepareRequest).Hashes...) // differs in the nonce only
	}
	pb := vt.New(dbft.PrepareRequestType, h, v, uint16(idx), j, &vt.PrepareRequest{Ts: t.TipTs + w.Cfg.TsIncrement, N: uint64(3000 + w.Step), Hashes: hs})
	w.Proposals = append(w.Proposals, pb)
	rm := &vt.RecoveryMessage{Embedded: append([]Payload{pb}, commits...)}
	p := vt.New(dbft.RecoveryMessageType, h, v, uint16(idx), j, rm)
	w.Stat("byz_replay_recovery")
	w.act("byz(%d) replays %d honest commits of (%d,%d) around its proposal %s to %d", j, len(commits), h, v, pb.Summary(), t.ID)
	t.Receive(p)
	a.afterCall(t)
	b := &vt.Block{Header: headerOf(pb, a.tipHashFor(t, h)), AMEV: w.Cfg.AMEVOn(h)}
	cm := vt.New(dbft.CommitType, h, v, uint16(idx), j, &vt.Commit{Sig: b.SignFor(j)})
	if a.pct("replaynow", 70) {
		t.Receive(cm)
		a.afterCall(t)
	} else {
		w.send(cm, j, t.ID)
	}
	return true
}

// Wanted lists what node n's application was asked for at its current height and view and has not handed over yet,
// in a stable order.
func Wanted(n *Node) []vt.H {
	var out []vt.H
	for h, hv := range n.Want {
		if hv[0] < n.D.BlockIndex {
			delete(n.Want, h)
			continue
		}
		if hv[0] == n.D.BlockIndex && hv[1] == uint32(n.D.ViewNumber) {
			out = append(out, h)
		}
	}
	sort.Slice(out, func(i, j int) bool { return bytes.Compare(out[i][:], out[j][:]) < 0 })
	return out
}

func (a *Async) tipHashFor(t *Node, h uint32) vt.H {
	// previous-block hash for block index h as far as the target knows
	if h == t.Tip+1 {
		return t.TipHash
	}
	if b := t.Chain[h-1]; b != nil {
		return b.Hash()
	}
	for _, n := range a.W.Honest() {
		if b := n.Chain[h-1]; b != nil {
			return b.Hash()
		}
	}
	return t.TipHash
}

func (a *Async) proposalsAt(h uint32, v int) []Payload {
	var c []Payload
	for _, p := range a.W.Proposals {
		if p.Ht == h && (v < 0 || int(p.V) == v) {
			c = append(c, p)
		}
	}
	return c
}

func headerOf(p Payload, prev vt.H) vt.Header {
	pr := p.Body.(*vt.PrepareRequest)
	return vt.Header{Idx: p.Ht, Prev: prev, Ts: pr.Ts, Nonce: pr.N, TxHashes: append([]vt.H(nil), pr.Hashes...)}
}

func (a *Async) fabricate(j, idx int, h uint32, v byte, t *Node, allowRecovery bool) Payload {
	w := a.W
	kinds := 7
	if !allowRecovery {
		kinds = 6
	}
	mk := func(typ dbft.MessageType, view byte, body any) Payload {
		return vt.New(typ, h, view, uint16(idx), j, body)
	}
	switch a.r("byzkind", kinds) {
	case 0: // proposal (any content; equivocation arises from repetition)
		ntx := a.r("ntx", 4)
		var hs []vt.H
		for i := 0; i < ntx; i++ {
			switch {
			case len(w.Universe) > 0 && a.pct("knowntx", 70):
				hs = append(hs, w.Universe[a.r("tx", len(w.Universe))].Hash())
			case a.pct("poison", 50):
				hs = append(hs, w.NewTx(true).Hash())
			default:
				hs = append(hs, vt.Sum([]byte(fmt.Sprintf("nonexistent-%d", a.r("x", 1000)))))
			}
		}
		hs = dedup(hs)
		ts := t.TipTs + w.Cfg.TsIncrement*uint64(1+a.r("tsk", 3))
		if a.pct("tsnow", 50) {
			ts = uint64(t.Now().UnixNano())
		}
		nonce := uint64(a.r("nonce", 4))
		if a.pct("policybad", 15) {
			nonce += 0xBAD0 // a proposal the applications' policy check (VerifyPrepareRequest) rejects
		}
		p := mk(dbft.PrepareRequestType, v, &vt.PrepareRequest{Ts: ts, N: nonce, Hashes: hs})
		w.Proposals = append(w.Proposals, p)
		return p
	case 1: // response naming a known or an unknown proposal
		var prep vt.H
		if c := a.proposalsAt(h, -1); len(c) > 0 && a.pct("knownprep", 85) {
			prep = c[a.r("prop", len(c))].Hash()
		} else {
			prep = vt.Sum([]byte(fmt.Sprintf("noprop-%d", a.r("x", 1000))))
		}
		return mk(dbft.PrepareResponseType, v, &vt.PrepareResponse{Prep: prep})
	case 2: // change view
		nv := v + 1 + byte(a.r("nv", 3))
		pv := v
		if a.pct("cvlow", 20) && v > 0 {
			pv = v - 1
		}
		return mk(dbft.ChangeViewType, pv, &vt.ChangeView{NewView: nv, R: dbft.CVTimeout, Ts: uint64(t.Now().UnixNano())})
	case 3: // commit
		var sig []byte
		view := v
		if c := a.proposalsAt(h, -1); len(c) > 0 && a.pct("validcommit", 75) {
			pr := c[a.r("prop", len(c))]
			view = pr.V
			hd := headerOf(pr, a.tipHashFor(t, h))
			b := &vt.Block{Header: hd, AMEV: w.Cfg.AMEVOn(h)}
			signer := j
			if a.pct("othersigner", 15) {
				signer = a.r("signer", w.Cfg.IDs) + 1000 // a key nobody holds: bytes that verify for no validator
			}
			sig = b.SignFor(signer)
			if a.pct("otherview", 15) {
				view = v + byte(a.r("dv", 2))
			}
		} else {
			sig = vt.Mac("garbage", a.r("x", 1000), nil)
		}
		return mk(dbft.CommitType, view, &vt.Commit{Sig: sig})
	case 4: // pre-commit
		var d []byte
		view := v
		if c := a.proposalsAt(h, -1); len(c) > 0 && a.pct("validpc", 75) {
			pr := c[a.r("prop", len(c))]
			view = pr.V
			pb := &vt.PreBlock{Header: headerOf(pr, a.tipHashFor(t, h))}
			d = pb.DataFor(j)
			if a.pct("otherview", 15) {
				view = v + byte(a.r("dv", 2))
			}
		} else {
			d = vt.Mac("garbage", a.r("x", 1000), nil)
		}
		return mk(dbft.PreCommitType, view, &vt.PreCommit{D: d})
	case 5:
		return mk(dbft.RecoveryRequestType, v, &vt.RecoveryRequest{Ts: uint64(t.Now().UnixNano())})
	default: // recovery message
		rm := &vt.RecoveryMessage{}
		// honest originals of this height
		var cand []Payload
		for _, p := range w.Sent {
			if p.Ht == h && p.T != dbft.RecoveryMessageType && p.T != dbft.RecoveryRequestType {
				cand = append(cand, p)
			}
		}
		if len(cand) > 0 {
			k := a.r("nemb", min(len(cand), 12)+1)
			start := a.r("embstart", len(cand))
			for i := 0; i < k; i++ {
				rm.Embedded = append(rm.Embedded, cand[(start+i)%len(cand)])
			}
		}
		nown := a.r("nown", 3)
		for i := 0; i < nown; i++ {
			if e := a.fabricate(j, idx, h, v, t, false); e != nil && e.T != dbft.RecoveryRequestType {
				rm.Embedded = append(rm.Embedded, e)
			}
		}
		wv := v
		if a.pct("rmview", 30) {
			wv = v + byte(a.r("dv", 3))
		}
		return mk(dbft.RecoveryMessageType, wv, rm)
	}
}

func dedup(hs []vt.H) []vt.H {
	var out []vt.H
	seen := map[vt.H]bool{}
	for _, h := range hs {
		if !seen[h] {
			seen[h] = true
			out = append(out, h)
		}
	}
	return out
}
