package sim

import (
	"fmt"

	"github.com/nspcc-dev/dbft"
	"github.com/nspcc-dev/dbft/verifharness/vt"
)

// C11 probes: reach a state with the adversarial driver, then apply one input
// that is inadmissible *decidably now* (or re-deliver a stored payload) and
// compare the whole-state fingerprint before and after.

type probeSnap struct {
	fp        string
	own       int
	callbacks int
}

func snap(n *Node) probeSnap {
	own := 0
	for _, l := range n.Own {
		own += len(l)
	}
	return probeSnap{fp: Fingerprint(n, FPOpt{NoLastSeen: true}), own: own, callbacks: n.Callbacks}
}

// probeInadmissible applies one inadmissible input to a drawn node.
func (a *Async) probeInadmissible() {
	w := a.W
	live := w.Live()
	n := live[a.r("node", len(live))]
	d := n.D
	h, v := d.BlockIndex, d.ViewNumber
	N := len(d.Validators)
	vals := w.Cfg.Validators(h)
	pi := refPrimary(h, v, N)
	mk := func(t dbft.MessageType, ht uint32, view byte, idx int, body any) Payload {
		author := 9999
		if idx < N {
			author = vals[idx]
		}
		return vt.New(t, ht, view, uint16(idx), author, body)
	}
	anyBody := func(t dbft.MessageType) any {
		switch t {
		case dbft.PrepareRequestType:
			nonce := uint64(a.r("x", 5))
			if a.pct("policybad", 30) {
				nonce = 0xBAD0 + nonce%4 // one the applications' policy check rejects: still no effect when the proposal is inadmissible anyway
			}
			return &vt.PrepareRequest{Ts: n.TipTs + w.Cfg.TsIncrement, N: nonce}
		case dbft.PrepareResponseType:
			var ph vt.H
			if p := d.PreparationPayloads[pi]; p != nil && a.pct("goodhash", 70) {
				ph = p.Hash()
			}
			return &vt.PrepareResponse{Prep: ph}
		case dbft.ChangeViewType:
			return &vt.ChangeView{NewView: v + 1, Ts: 1}
		case dbft.CommitType:
			return &vt.Commit{Sig: vt.Mac("garbage", a.r("x", 50), nil)}
		case dbft.PreCommitType:
			return &vt.PreCommit{D: vt.Mac("garbage", a.r("x", 50), nil)}
		case dbft.RecoveryRequestType:
			return &vt.RecoveryRequest{Ts: 1}
		default:
			return &vt.RecoveryMessage{}
		}
	}
	types := []dbft.MessageType{dbft.PrepareRequestType, dbft.PrepareResponseType, dbft.ChangeViewType, dbft.CommitType, dbft.PreCommitType, dbft.RecoveryRequestType, dbft.RecoveryMessageType}
	var class string
	var p Payload
	var call func()
	switch a.r("probeclass", 8) {
	case 0: // validator index outside the list, any height/view
		t := types[a.r("ptype", len(types))]
		ht := h + uint32(a.r("dh", 3)) - 1
		p = mk(t, ht, v+byte(a.r("dv", 2)), N+a.r("over", 3), anyBody(t))
		class = "index-out-of-range"
	case 1: // past height
		if h == 0 {
			return
		}
		t := types[a.r("ptype", len(types))]
		p = mk(t, h-1-uint32(a.r("dh", 2))%h, byte(a.r("pv", 3)), a.r("idx", N), anyBody(t))
		class = "past-height"
	case 2: // current-view proposal from a non-primary
		if N < 2 {
			return
		}
		idx := (pi + 1 + a.r("idx", N-1)) % N
		p = mk(dbft.PrepareRequestType, h, v, idx, anyBody(dbft.PrepareRequestType))
		class = "proposal-from-non-primary"
	case 3: // proposal or response for a lower view
		if v == 0 {
			return
		}
		t := types[a.r("ptype", 2)]
		lv := byte(a.r("lv", int(v)))
		idx := a.r("idx", N)
		if t == dbft.PrepareRequestType {
			idx = refPrimary(h, lv, N)
		}
		p = mk(t, h, lv, idx, anyBody(t))
		class = "lower-view-preparation"
	case 4: // response from the primary
		p = mk(dbft.PrepareResponseType, h, v, pi, anyBody(dbft.PrepareResponseType))
		class = "response-from-primary"
	case 5: // pre-commit while anti-MEV is off
		if w.Cfg.AMEVOn(h) {
			return
		}
		p = mk(dbft.PreCommitType, h, byte(a.r("pv", int(v)+1)), a.r("idx", N), anyBody(dbft.PreCommitType))
		class = "precommit-while-off"
	case 6: // transaction that was not requested
		var tx vt.Tx
		// once the node has answered the proposal of its view (or is its primary, or holds none) it waits for
		// no transaction at all: one of the proposal's own transactions supplied (again) then is not requested either
		if (d.ResponseSent() || d.PreCommitSent() || d.CommitSent() || d.IsPrimary() || !d.RequestSentOrReceived()) && len(d.TransactionHashes) > 0 && a.pct("reprop", 50) {
			if t, ok := w.TxByHash(d.TransactionHashes[a.r("txi", len(d.TransactionHashes))]); ok {
				tx = t
				class = "transaction-after-answer"
				call = func() { n.Transaction(tx) }
				break
			}
		}
		for tries := 0; ; tries++ {
			if len(w.Universe) > 0 && a.pct("known", 60) && tries < 3 {
				tx = w.Universe[a.r("tx", len(w.Universe))]
			} else {
				tx = w.NewTx(false)
			}
			// requested = named by the proposal the node holds (by the payload the harness delivered, not by the
			// library's own list of missing transactions)
			req := false
			if pp := d.PreparationPayloads[d.PrimaryIndex]; pp != nil && pp.Type() == dbft.PrepareRequestType {
				for _, m := range pp.GetPrepareRequest().TransactionHashes() {
					if m == tx.Hash() {
						req = true
					}
				}
			}
			if !req {
				break
			}
		}
		if a.pct("zerotx", 15) {
			tx = vt.ZeroTx // its hash is the zero value of the hash type
			w.Stat("probe_zero_hash_transaction")
		}
		class = "unrequested-transaction"
		call = func() { n.Transaction(tx) }
	default: // timeout tagged with another height or view
		th, tv := h, v
		switch a.r("stalekind", 4) {
		case 0:
			th--
		case 1:
			th++
		case 2:
			tv++
		default:
			if tv > 0 {
				tv--
			} else {
				th += 2
			}
		}
		class = "stale-timeout"
		call = func() { n.Timeout(th, tv) }
	}
	if call == nil {
		pp := p
		call = func() { n.Receive(pp) }
	}
	before := snap(n)
	call()
	if n.Crashed {
		return
	}
	after := snap(n)
	w.Stat("c11_probe_" + class)
	nonEmpty := 0
	for _, t := range [][]dbft.ConsensusPayload[vt.H]{d.PreparationPayloads, d.CommitPayloads, d.PreCommitPayloads, d.ChangeViewPayloads, d.LastChangeViewPayloads} {
		for _, e := range t {
			if e != nil {
				nonEmpty++
				break
			}
		}
	}
	if nonEmpty >= 2 {
		w.Stat("c11_probe_nontrivial")
	}
	desc := class
	if p != nil {
		desc += " " + p.Summary()
	}
	w.act("probe(%d) %s", n.ID, desc)
	if before.fp != after.fp {
		w.Fail("C11", fmt.Sprintf("node %d at (%d,%d): inadmissible input [%s] changed the state: %s", n.ID, h, v, desc, FirstDiff(before.fp, after.fp)), "inadmissible-changed-state:"+class)
	} else if before.own != after.own {
		w.Fail("C11", fmt.Sprintf("node %d at (%d,%d): inadmissible input [%s] caused a broadcast", n.ID, h, v, desc), "inadmissible-broadcast:"+class)
	} else if before.callbacks != after.callbacks {
		w.Fail("C11", fmt.Sprintf("node %d at (%d,%d): inadmissible input [%s] caused %d application callback(s)", n.ID, h, v, desc, after.callbacks-before.callbacks), "inadmissible-callback:"+class)
	}
}

// probeRedeliver hands a payload currently stored in one of the node's tables to it again.
func (a *Async) probeRedeliver() {
	w := a.W
	live := w.Live()
	n := live[a.r("node", len(live))]
	d := n.D
	var cand []Payload
	for _, t := range [][]dbft.ConsensusPayload[vt.H]{d.PreparationPayloads, d.CommitPayloads, d.PreCommitPayloads, d.ChangeViewPayloads} {
		for _, e := range t {
			if e != nil {
				cand = append(cand, e.(*vt.Payload))
			}
		}
	}
	// LastChangeViewPayloads is the evidence of the previous view, not the live
	// table: a request kept there that asks for a view above the current one is
	// (by design) counted again when it arrives again, so only requests for
	// views <= current are "already accepted and stored" in the property's sense.
	for _, e := range d.LastChangeViewPayloads {
		if e != nil && e.GetChangeView().NewViewNumber() <= d.ViewNumber {
			cand = append(cand, e.(*vt.Payload))
		}
	}
	if len(cand) == 0 {
		return
	}
	p := cand[a.r("stored", len(cand))]
	before := snap(n)
	n.Receive(p)
	if n.Crashed {
		return
	}
	after := snap(n)
	w.Stat("c11_redeliver")
	w.act("redeliver(%d) %s", n.ID, p.Summary())
	h, v := d.BlockIndex, d.ViewNumber
	if before.fp != after.fp {
		w.Fail("C11", fmt.Sprintf("node %d at (%d,%d): re-delivery of stored %s changed the state: %s", n.ID, h, v, p.Summary(), FirstDiff(before.fp, after.fp)), "redelivery-changed-state")
		return
	}
	newOwn := after.own - before.own
	if newOwn > 1 {
		w.Fail("C11", fmt.Sprintf("node %d at (%d,%d): re-delivery of stored %s caused %d broadcasts", n.ID, h, v, p.Summary(), newOwn), "redelivery-broadcasts")
	} else if newOwn == 1 {
		own := n.Own[h]
		if last := own[len(own)-1]; last.T != dbft.RecoveryMessageType {
			w.Fail("C11", fmt.Sprintf("node %d at (%d,%d): re-delivery of stored %s caused broadcast of %s", n.ID, h, v, p.Summary(), last.Summary()), "redelivery-broadcast-not-recovery")
		}
	}
	if after.callbacks-before.callbacks > newOwn {
		w.Fail("C11", fmt.Sprintf("node %d at (%d,%d): re-delivery of stored %s caused application callbacks", n.ID, h, v, p.Summary()), "redelivery-callback")
	}
}
