package sim

import (
	"crypto/rand"
	"crypto/sha256"
	"encoding/binary"
	"fmt"
	"sort"
	"strings"
	"time"

	"github.com/nspcc-dev/dbft"
	"github.com/nspcc-dev/dbft/verifharness/vt"
)

// Src is the only source of choice in a run. Implementations: rapid draws,
// a recorded stream (replay), or a byte string (fuzzing).
type Src interface {
	// Intn returns a value in [0, n). n >= 1.
	Intn(label string, n int) int
}

// Cfg is the static configuration of a world.
type Cfg struct {
	IDs             int                  // identities 0..IDs-1
	Validators      func(h uint32) []int // validator identities for block index h
	ValDesc         string               // description of the schedule for traces
	StartTip        uint32               // ledger height at start
	AMEVHeight      int64                // -1: off
	TimePerBlock    time.Duration
	MaxTimePerBlock time.Duration // 0: extension off
	TsIncrement     uint64
	Epoch           time.Time
	SubscribeProbe  bool
	// HonourStopTxFlow: the application stops collecting requested transactions when the library says it needs none
	// (StopTxFlow): what was asked for before is forgotten, only a new RequestTx starts the feed again.
	HonourStopTxFlow bool
	// BlockTimeByTip: when set, the block-time callbacks follow the ledger (chain-governed settings): they return the
	// pair valid on top of the node's current tip, so a pair read after the tip moved (block sync before Reset)
	// differs from the one the library saved when it entered the height.  Always a consistent pair (max >= min).
	BlockTimeByTip func(tip uint32) (tpb, maxTpb time.Duration)
	SaltedSigs     bool // block signatures are randomised like ECDSA, see vt.SaltedSigs
	PreDataTxOnly  bool // pre-commit shares are bound to (height, transactions) only, see vt.PreDataTxOnly
	// ShareBoundFrom > 0: from this height on the final anti-MEV block depends on which pre-commit shares its builder
	// found in the context (the first M current-view ones by index), see vt.Block.ShareBound.  Honest nodes that saw
	// different share sets then build different blocks, so this is only used where per-node oracles judge (C02).
	ShareBoundFrom uint32
}

func (c *Cfg) AMEVOn(h uint32) bool { return c.AMEVHeight >= 0 && uint32(c.AMEVHeight) <= h }

// Msg is one in-flight copy of a payload.
type Msg struct {
	P    Payload
	From int
	To   int
	At   time.Time // delivery instant (timed mode)
	Seq  int
	Dup  bool
	Pre  bool // was already in flight when a keep-in-flight cut started: still arrives
}

// Violation is what a monitor reports.
type Violation struct {
	Prop string
	Msg  string
	Key  string // stable signature used to match known findings
	Step int
}

// Mon is a monitor: a pure observer with optional hooks.
type Mon struct {
	Name            string
	Broadcast       func(n *Node, p Payload)
	ProcessBlock    func(n *Node, b *vt.Block, err error)
	ProcessPreBlock func(n *Node, b *vt.PreBlock, err error)
	BeforeCall      func(n *Node, c *Call)
	AfterCall       func(n *Node, c *Call)
	TimerReset      func(n *Node, h uint32, v byte, d time.Duration)
	TimerExtend     func(n *Node, d time.Duration)
	RequestTx       func(n *Node, hs []vt.H)
	VerifyBlock     func(n *Node, ok bool)
	// VerifyTxs sees the transaction list of every block / pre-block handed to the verification callbacks
	VerifyTxs         func(n *Node, txs []dbft.Transaction[vt.H])
	NewBlock          func(n *Node, b *vt.Block)
	NewPreBlock       func(n *Node, b *vt.PreBlock)
	Sign              func(n *Node, b *vt.Block)
	SetData           func(n *Node, b *vt.PreBlock)
	GetVerified       func(n *Node, txs []dbft.Transaction[vt.H])
	NewPrepareRequest func(n *Node, ts, nonce uint64, hs []vt.H)
	Subscribe         func(n *Node)
	Panic             func(n *Node, c *Call, msg string) // the library panicked inside an API call (the node is not driven any further)
	Restarted         func(n *Node)
	EndOfRun          func(w *World)
}

// World is N nodes, the network, the adversary and the clock.
type World struct {
	Cfg     Cfg
	R       Src
	Nodes   []*Node // by identity; nil for purely Byzantine identities
	Byz     []int   // Byzantine identities
	Clock   time.Time
	Step    int
	Flight  []*Msg
	seq     int
	Mons    []*Mon
	SubHook func(n *Node) // driver's part of the SubscribeForTxs callback (runs before the listener is registered)
	Viols   []Violation
	KeepLog bool
	Cut     map[int]bool // isolated identities (messages crossing the cut are lost)
	Timed   bool
	MaxLat  time.Duration
	// PhaseRank (timed mode): identity -> arrival rank (0..3) of each phase of a round at that node
	PhaseRank map[int][4]int

	Sent      []Payload // every honest broadcast, in order
	Proposals []Payload // every proposal ever seen on the wire
	Universe  []vt.Tx
	nextTx    uint64

	Actions     []string       // rendered actions (when KeepLog)
	Stats       map[string]int // class counters
	FaultBudget int
	KnownHits   map[string]int
	TimedRes    *Timed
	detRand     *detReader
}

// Stat increments a class counter.
func (w *World) Stat(k string) { w.Stats[k]++ }

// KnownKeys ("<prop>/<key>") are open known findings: a violation with such a key is counted
// and the run goes on, so that the search is not cut short behind a shallow known defect.
var KnownKeys = map[string]bool{}

// Fail records a violation.
func (w *World) Fail(prop, msg, key string) {
	if KnownKeys[prop+"/"+key] {
		if w.KnownHits == nil {
			w.KnownHits = map[string]int{}
		}
		w.KnownHits[prop+"/"+key]++
		return
	}
	w.Viols = append(w.Viols, Violation{Prop: prop, Msg: msg, Key: key, Step: w.Step})
}

func (w *World) act(format string, a ...any) {
	if w.KeepLog {
		w.Actions = append(w.Actions, fmt.Sprintf("%4d t=%-12s ", w.Step, w.Clock.Sub(w.Cfg.Epoch))+fmt.Sprintf(format, a...))
	}
}

// detReader makes crypto/rand (the proposal nonce) deterministic.
type detReader struct{ ctr uint64 }

func (d *detReader) Read(p []byte) (int, error) {
	for i := 0; i < len(p); {
		d.ctr++
		var b [8]byte
		binary.LittleEndian.PutUint64(b[:], d.ctr)
		s := sha256.Sum256(b[:])
		i += copy(p[i:], s[:])
	}
	return len(p), nil
}

// NewWorld builds nodes for every identity not listed as Byzantine.
func NewWorld(cfg Cfg, r Src, byz []int, watchFlag map[int]bool, mons []*Mon, keepLog bool) *World {
	w := &World{Cfg: cfg, R: r, Byz: byz, Clock: cfg.Epoch, Mons: mons, KeepLog: keepLog, Cut: map[int]bool{}, Stats: map[string]int{}}
	w.detRand = &detReader{}
	rand.Reader = w.detRand
	vt.PreDataTxOnly = cfg.PreDataTxOnly
	vt.SaltedSigs, vt.SigSalt = cfg.SaltedSigs, 0
	isByz := map[int]bool{}
	for _, b := range byz {
		isByz[b] = true
	}
	w.Nodes = make([]*Node, cfg.IDs)
	for id := 0; id < cfg.IDs; id++ {
		if isByz[id] {
			continue
		}
		n := &Node{W: w, ID: id, WatchFlag: watchFlag[id]}
		n.Tip = cfg.StartTip
		n.TipHash = vt.Sum([]byte(fmt.Sprintf("genesis-%d", cfg.StartTip)))
		n.TipTs = uint64(cfg.Epoch.UnixNano()) - uint64(cfg.TimePerBlock)
		if cfg.StartTip == 0 {
			n.TipTs = 0
		}
		n.Chain = map[uint32]*vt.Block{}
		n.Pool = map[vt.H]vt.Tx{}
		n.Seen = map[uint32][]Payload{}
		n.Direct = map[uint32][]Payload{}
		n.Own = map[uint32][]Payload{}
		n.Accepted = map[uint32][]*vt.Block{}
		n.PreAccepted = map[uint32]int{}
		n.newDBFT()
		w.Nodes[id] = n
	}
	return w
}

// Live returns instantiated, not crashed nodes.
func (w *World) Live() []*Node {
	var out []*Node
	for _, n := range w.Nodes {
		if n != nil && !n.Crashed {
			out = append(out, n)
		}
	}
	return out
}

// Honest returns nodes that never misbehaved (no amnesia restart).
func (w *World) Honest() []*Node {
	var out []*Node
	for _, n := range w.Nodes {
		if n != nil && !n.Faulty {
			out = append(out, n)
		}
	}
	return out
}

func (w *World) StartAll() {
	for _, n := range w.Nodes {
		if n != nil {
			w.act("start(%d)", n.ID)
			n.Start()
		}
	}
}

func (w *World) linked(a, b int) bool { return w.Cut[a] == w.Cut[b] }

func (w *World) onBroadcast(n *Node, p Payload) {
	w.Sent = append(w.Sent, p)
	if p.T == dbft.PrepareRequestType {
		w.Proposals = append(w.Proposals, p)
	}
	for _, m := range w.Nodes {
		if m == nil || m == n {
			continue
		}
		if !w.linked(n.ID, m.ID) {
			w.Stat("lost_by_cut")
			continue
		}
		w.send(p, n.ID, m.ID)
	}
}

func (w *World) send(p Payload, from, to int) {
	w.seq++
	msg := &Msg{P: p, From: from, To: to, Seq: w.seq}
	if w.Timed {
		lat := time.Duration(0)
		if w.MaxLat > 0 && len(w.PhaseRank) > 0 {
			// phase skew: at the chosen nodes whole phases of a round arrive in a drawn order
			// (rank r of 4: [r/4, r/4+1/8] of MaxLat); the other links are fast (<= MaxLat/40)
			j := time.Duration(Scramble(w.R.Intn("lat", 21), 21))
			if rk, ok := w.PhaseRank[to]; ok {
				lat = time.Duration(rk[phaseOf(p.T)])*w.MaxLat/4 + j*w.MaxLat/160
			} else {
				lat = j * w.MaxLat / 800
			}
		} else if w.MaxLat > 0 {
			lat = time.Duration(Scramble(w.R.Intn("lat", 21), 21)) * w.MaxLat / 20
		}
		msg.At = w.Clock.Add(lat)
	}
	w.Flight = append(w.Flight, msg)
}

// phaseOf maps a message type to one of the four phases of a round (everything else travels with the proposal).
func phaseOf(t dbft.MessageType) int {
	switch t {
	case dbft.PrepareResponseType:
		return 1
	case dbft.PreCommitType:
		return 2
	case dbft.CommitType:
		return 3
	}
	return 0
}

func (w *World) onAccepted(n *Node, b *vt.Block) { w.Stat("accepted") }

// removeFlight removes the k-th in-flight item preserving order.
func (w *World) removeFlight(k int) *Msg {
	m := w.Flight[k]
	w.Flight = append(w.Flight[:k], w.Flight[k+1:]...)
	return m
}

// Deliver hands the k-th in-flight item to its destination.
func (w *World) Deliver(k int, keep bool) {
	var m *Msg
	if keep {
		m = w.Flight[k]
	} else {
		m = w.removeFlight(k)
	}
	n := w.Nodes[m.To]
	if n == nil || n.Crashed {
		w.Stat("lost_crashed")
		return
	}
	if keep {
		w.Stat("dup")
	}
	w.act("deliver%s %d->%d %s", map[bool]string{true: "+keep", false: ""}[keep], m.From, m.To, m.P.Summary())
	n.Receive(m.P)
}

// FireTimer consumes node i's pending timer.
func (w *World) FireTimer(n *Node) {
	t := n.Timer
	t.Pending = false
	w.act("timeout(%d) h=%d v=%d", n.ID, t.H, t.V)
	n.Timeout(t.H, t.V)
}

// Restart replaces the library instance of node n (amnesia) on its ledger.
func (w *World) Restart(n *Node) {
	n.Crashed = false
	n.Faulty = true
	n.Restarts++
	n.Subscribed = false
	delete(n.PreAccepted, n.Tip+1)
	n.Seen = map[uint32][]Payload{}
	n.Direct = map[uint32][]Payload{}
	n.newDBFT()
	for _, m := range w.Mons {
		if m.Restarted != nil {
			m.Restarted(n)
		}
	}
	w.act("restart(%d)", n.ID)
	n.Start()
}

// SyncFrom lets node n adopt up to k blocks following its tip from peer's ledger.
func (w *World) SyncFrom(n, peer *Node, k int) int {
	got := 0
	for ; k > 0; k-- {
		b := peer.Chain[n.Tip+1]
		if b == nil {
			break
		}
		n.applyBlock(b)
		got++
	}
	if got > 0 {
		w.act("sync(%d<-%d) +%d tip=%d", n.ID, peer.ID, got, n.Tip)
	}
	return got
}

// NewTx invents a fresh transaction.
func (w *World) NewTx(poison bool) vt.Tx {
	w.nextTx++
	tx := vt.Tx(w.nextTx)
	if poison {
		tx |= vt.Tx(vt.PoisonBit)
	}
	w.Universe = append(w.Universe, tx)
	return tx
}

// TxByHash finds a transaction of the universe.
func (w *World) TxByHash(h vt.H) (vt.Tx, bool) {
	for _, tx := range w.Universe {
		if tx.Hash() == h {
			return tx, true
		}
	}
	return 0, false
}

// Finish runs end-of-run monitor hooks.
func (w *World) Finish() {
	for _, m := range w.Mons {
		if m.EndOfRun != nil {
			m.EndOfRun(w)
		}
	}
}

// ---- rendering -----------------------------------------------------------

// Render produces the concrete trace: configuration, actions and per-node events.
func (w *World) Render() string {
	var sb strings.Builder
	c := w.Cfg
	fmt.Fprintf(&sb, "config: ids=%d validators=%s startTip=%d amev=%d tpb=%s maxtpb=%s inc=%d epoch=%s timed=%v byz=%v\n",
		c.IDs, c.ValDesc, c.StartTip, c.AMEVHeight, c.TimePerBlock, c.MaxTimePerBlock, c.TsIncrement, c.Epoch.UTC().Format(time.RFC3339Nano), w.Timed, w.Byz)
	if c.SaltedSigs {
		sb.WriteString("block signatures are randomised (salted)\n")
	}
	if c.PreDataTxOnly {
		sb.WriteString("pre-commit shares are bound to (height, transactions) only\n")
	}
	if c.ShareBoundFrom > 0 {
		fmt.Fprintf(&sb, "final anti-MEV blocks depend on the share set used by their builder from height %d on\n", c.ShareBoundFrom)
	}
	if len(w.PhaseRank) > 0 {
		fmt.Fprintf(&sb, "phase skew (arrival rank of proposal/response/pre-commit/commit per node): %v\n", w.PhaseRank)
	}
	for _, v := range w.Viols {
		fmt.Fprintf(&sb, "VIOLATION %s at step %d key=%s: %s\n", v.Prop, v.Step, v.Key, v.Msg)
	}
	sb.WriteString("actions:\n")
	for _, a := range w.Actions {
		sb.WriteString("  " + a + "\n")
	}
	for _, n := range w.Nodes {
		if n == nil {
			continue
		}
		fmt.Fprintf(&sb, "node %d (watchFlag=%v faulty=%v tip=%d):\n", n.ID, n.WatchFlag, n.Faulty, n.Tip)
		for _, e := range n.Log {
			s := e.S
			if e.Kind == EvBroadcast && e.P != nil {
				s = e.P.Summary()
			}
			fmt.Fprintf(&sb, "  %4d t=%-12s [h=%d v=%d] %-14s %s\n", e.Step, e.T, e.Ht, e.V, e.Kind, s)
		}
	}
	return sb.String()
}

// StatKeys returns sorted stat keys.
func (w *World) StatKeys() []string {
	ks := make([]string, 0, len(w.Stats))
	for k := range w.Stats {
		ks = append(ks, k)
	}
	sort.Strings(ks)
	return ks
}
