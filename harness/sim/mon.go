package sim

import (
	"fmt"
	"time"

	"github.com/nspcc-dev/dbft"
	"github.com/nspcc-dev/dbft/verifharness/vt"
)

// ---- helpers ---------------------------------------------------------------

// refPrimary is the harness' own computation of the primary index.
func refPrimary(h uint32, v byte, n int) int {
	p := (int64(h) - int64(v)) % int64(n)
	if p < 0 {
		p += int64(n)
	}
	return int(p)
}

func refF(n int) int { // largest f with 3f+1 <= n
	f := 0
	for 3*(f+1)+1 <= n {
		f++
	}
	return f
}
func refM(n int) int { return n - refF(n) }

// known returns every payload of height h the node was handed (directly or
// embedded in a recovery message) or produced itself.
func known(n *Node, h uint32) []Payload {
	out := make([]Payload, 0, len(n.Seen[h])+len(n.Own[h]))
	out = append(out, n.Seen[h]...)
	for _, p := range n.Own[h] {
		out = append(out, p)
		if rm, ok := p.Body.(*vt.RecoveryMessage); ok {
			_ = rm
		}
	}
	return out
}

// authenticAt tells whether the payload's author is the validator its index designates at height h.
func authenticAt(w *World, p Payload, h uint32) bool {
	vals := w.Cfg.Validators(h)
	return int(p.Idx) < len(vals) && vals[p.Idx] == p.Author
}

func countDistinct(ps []Payload, pred func(Payload) bool) int {
	seen := map[uint16]bool{}
	for _, p := range ps {
		if pred(p) {
			seen[p.Idx] = true
		}
	}
	return len(seen)
}

func sameHashes(a, b []vt.H) bool {
	if len(a) != len(b) {
		return false
	}
	for i := range a {
		if a[i] != b[i] {
			return false
		}
	}
	return true
}

// ---- C01 agreement ---------------------------------------------------------

func MonC01() *Mon {
	first := map[uint32]*vt.Block{}
	who := map[uint32]int{}
	tainted := map[uint32]bool{} // some honest acceptance at this height counted an invalid commit that arrived before the proposal (D1)
	early := map[*Node]map[vt.H]bool{}
	pend := map[*Node][]Payload{}
	note := func(n *Node, p Payload, emb bool) {
		if p.T != dbft.CommitType || n.D.Validators == nil || p.Ht < n.D.BlockIndex {
			return
		}
		m := early[n]
		if m == nil {
			m = map[vt.H]bool{}
			early[n] = m
		}
		if _, ok := m[p.Hash()]; !ok {
			m[p.Hash()] = !(p.Ht == n.D.BlockIndex && p.V == n.D.ViewNumber && n.D.RequestSentOrReceived())
			if emb {
				// a recovery message hands over its proposal before its commits: whether this one met a proposal is
				// known when the call is over (inside the call a block can only be accepted with the proposal held)
				m[p.Hash()] = false
				pend[n] = append(pend[n], p)
			}
		}
	}
	return &Mon{Name: "C01",
		BeforeCall: func(n *Node, c *Call) {
			if c.Kind == CReceive {
				note(n, c.P, false)
				if rm, ok := c.P.Body.(*vt.RecoveryMessage); ok {
					for _, e := range rm.Embedded {
						note(n, e, true)
					}
				}
			}
		},
		AfterCall: func(n *Node, c *Call) {
			for _, p := range pend[n] {
				early[n][p.Hash()] = !(p.Ht == n.D.BlockIndex && p.V == n.D.ViewNumber && n.D.RequestSentOrReceived())
			}
			pend[n] = nil
			// a commit of a view the node has not reached is kept aside until that view is entered (where the kept
			// proposal is replayed first): one that sits in the table right after its delivery was not stored by D1's path
			if c.Kind == CReceive && c.P.T == dbft.CommitType && n.D.Validators != nil && c.P.Ht == n.D.BlockIndex && c.P.V > n.D.ViewNumber && int(c.P.Idx) < len(n.D.CommitPayloads) {
				if cp := n.D.CommitPayloads[c.P.Idx]; cp != nil && cp.Hash() == c.P.Hash() {
					early[n][c.P.Hash()] = false
				}
			}
		},
		ProcessBlock: func(n *Node, b *vt.Block, err error) {
			if err != nil || n.Faulty {
				return
			}
			w := n.W
			for j, cp := range n.D.CommitPayloads {
				// D1 is the backup's call site (onPrepareRequest); the primary re-validates early commits when it proposes
				if cp != nil && cp.ViewNumber() == n.D.ViewNumber && b.Verify(n.D.Validators[j], cp.GetCommit().Signature()) != nil && early[n][cp.Hash()] && !n.D.IsPrimary() {
					tainted[b.Idx] = true
				}
			}
			if f, ok := first[b.Idx]; ok {
				if f.Hash() != b.Hash() {
					key := "fork"
					if tainted[b.Idx] {
						key = "D1-fork-unverified-early-commit"
					}
					w.Fail("C01", fmt.Sprintf("height %d: node %d accepted block %s but node %d accepted %s", b.Idx, n.ID, b.Hash(), who[b.Idx], f.Hash()), key)
				} else if who[b.Idx] != n.ID {
					w.Stat("c01_agree2")
				}
			} else {
				first[b.Idx] = b
				who[b.Idx] = n.ID
			}
			// own chain: the accepted block must extend the node's accepted predecessor, if any
			if prev := n.Chain[b.Idx-1]; prev != nil && prev.Hash() != b.Prev {
				w.Fail("C01", fmt.Sprintf("node %d: accepted block %d does not extend its own block %d", n.ID, b.Idx, b.Idx-1), "chain-break")
			}
		},
	}
}

// ---- C02 decision certificate ------------------------------------------------

// MonC02 checks the certificate at the instant of the acceptance callbacks.
func MonC02() *Mon {
	type arrival struct{ early bool }
	// per node: was validator idx's (pre)commit first handed over while the node did not hold the proposal of that view?
	early := map[*Node]map[string]bool{}
	initTip := map[*Node]uint32{}
	initHash := map[*Node]vt.H{}
	pend := map[*Node][]Payload{}
	key := func(p Payload) string { return fmt.Sprintf("%d/%d/%s", p.Ht, p.T, p.Hash()) }
	note := func(n *Node, p Payload, emb bool) {
		if p.T != dbft.CommitType && p.T != dbft.PreCommitType {
			return
		}
		if n.D.Validators == nil || p.Ht < n.D.BlockIndex {
			return
		}
		k := fmt.Sprintf("%d/%d/%s", p.Ht, p.T, p.Hash())
		m := early[n]
		if m == nil {
			m = map[string]bool{}
			early[n] = m
		}
		if _, ok := m[k]; ok {
			return
		}
		holds := p.Ht == n.D.BlockIndex && p.V == n.D.ViewNumber && n.D.RequestSentOrReceived()
		m[k] = !holds
		if emb {
			// (as in MonC01: a recovery message hands over its proposal first; judged when the call is over)
			m[k] = false
			pend[n] = append(pend[n], p)
		}
	}
	return &Mon{Name: "C02",
		BeforeCall: func(n *Node, c *Call) {
			if c.Kind == CStart || c.Kind == CReset {
				// the tip the application reports at this (re)initialisation
				initTip[n], initHash[n] = n.Tip, n.TipHash
			}
			if c.Kind == CReceive {
				note(n, c.P, false)
				if rm, ok := c.P.Body.(*vt.RecoveryMessage); ok {
					for _, e := range rm.Embedded {
						note(n, e, true)
					}
				}
			}
		},
		AfterCall: func(n *Node, c *Call) {
			for _, p := range pend[n] {
				early[n][key(p)] = !(p.Ht == n.D.BlockIndex && p.V == n.D.ViewNumber && n.D.RequestSentOrReceived())
			}
			pend[n] = nil
			// (as in MonC01: a (pre)commit of a view not reached yet that sits in the table right after its delivery)
			if c.Kind == CReceive && (c.P.T == dbft.CommitType || c.P.T == dbft.PreCommitType) && n.D.Validators != nil && c.P.Ht == n.D.BlockIndex && c.P.V > n.D.ViewNumber {
				list := n.D.CommitPayloads
				if c.P.T == dbft.PreCommitType {
					list = n.D.PreCommitPayloads
				}
				if int(c.P.Idx) < len(list) {
					if cp := list[c.P.Idx]; cp != nil && cp.Hash() == c.P.Hash() {
						early[n][key(c.P)] = false
					}
				}
			}
		},
		ProcessBlock: func(n *Node, b *vt.Block, err error) {
			if n.Faulty {
				return // restarted with amnesia: faulty by definition
			}
			w, d := n.W, n.D
			v := d.ViewNumber
			valid, invalidEarly, invalidTimely := 0, 0, 0
			for j, cp := range d.CommitPayloads {
				if cp == nil || cp.ViewNumber() != v {
					continue
				}
				if b.Verify(d.Validators[j], cp.GetCommit().Signature()) == nil && int(cp.ValidatorIndex()) == j {
					valid++
				} else {
					k := fmt.Sprintf("%d/%d/%s", cp.Height(), cp.Type(), cp.Hash())
					if early[n][k] {
						invalidEarly++
					} else {
						invalidTimely++
					}
				}
			}
			if invalidEarly+invalidTimely > 0 {
				w.Stat("c02_invalid_held")
			}
			if valid < refM(len(d.Validators)) {
				key := "commit-quorum"
				if invalidTimely == 0 && valid+invalidEarly >= refM(len(d.Validators)) && !d.IsPrimary() {
					key = "D1-early-commit-not-revalidated" // the backup's call site only: the primary re-validates when it proposes
				}
				w.Fail("C02", fmt.Sprintf("node %d height %d view %d: ProcessBlock called holding only %d valid current-view commits (M=%d; %d invalid held that arrived before the proposal, %d invalid that arrived after)", n.ID, b.Idx, v, valid, refM(len(d.Validators)), invalidEarly, invalidTimely), key)
			}
			if tip, ok := initTip[n]; ok {
				if b.Idx != tip+1 || b.Prev != initHash[n] {
					w.Fail("C02", fmt.Sprintf("node %d: accepted block index %d prev %s does not extend the tip %d/%s reported at initialisation", n.ID, b.Idx, b.Prev, tip, initHash[n]), "not-extending-tip")
				}
			}
			checkContent(n, "block", &b.Header, b.Txs)
		},
		ProcessPreBlock: func(n *Node, pb *vt.PreBlock, err error) {
			if n.Faulty {
				return
			}
			w, d := n.W, n.D
			v := d.ViewNumber
			valid, invalidEarly, invalidTimely := 0, 0, 0
			for j, cp := range d.PreCommitPayloads {
				if cp == nil || cp.ViewNumber() != v {
					continue
				}
				if pb.Verify(d.Validators[j], cp.GetPreCommit().Data()) == nil && int(cp.ValidatorIndex()) == j {
					valid++
				} else {
					k := fmt.Sprintf("%d/%d/%s", cp.Height(), cp.Type(), cp.Hash())
					if early[n][k] {
						invalidEarly++
					} else {
						invalidTimely++
					}
				}
			}
			if invalidEarly+invalidTimely > 0 {
				w.Stat("c02_invalid_held")
			}
			if valid < refM(len(d.Validators)) {
				key := "precommit-quorum"
				if invalidTimely == 0 && valid+invalidEarly >= refM(len(d.Validators)) && !d.IsPrimary() {
					key = "D1-early-precommit-not-revalidated"
				}
				w.Fail("C02", fmt.Sprintf("node %d height %d view %d: ProcessPreBlock called holding only %d valid current-view pre-commits (M=%d; %d invalid early, %d invalid timely)", n.ID, pb.Idx, v, valid, refM(len(d.Validators)), invalidEarly, invalidTimely), key)
			}
			if tip, ok := initTip[n]; ok {
				if pb.Idx != tip+1 || pb.Prev != initHash[n] {
					w.Fail("C02", fmt.Sprintf("node %d: pre-block index %d does not extend the tip reported at initialisation", n.ID, pb.Idx), "pre-not-extending-tip")
				}
			}
			checkContent(n, "pre-block", &pb.Header, pb.Txs)
		},
	}
}

// checkContent: the accepted (pre-)block is exactly the stored proposal of the view's primary.
func checkContent(n *Node, what string, hd *vt.Header, txs []dbft.Transaction[vt.H]) {
	w, d := n.W, n.D
	pi := refPrimary(d.BlockIndex, d.ViewNumber, len(d.Validators))
	pp := d.PreparationPayloads[pi]
	if pp == nil || pp.Type() != dbft.PrepareRequestType || int(pp.ValidatorIndex()) != pi || pp.ViewNumber() != d.ViewNumber {
		w.Fail("C02", fmt.Sprintf("node %d height %d view %d: %s accepted without the primary's proposal being held", n.ID, d.BlockIndex, d.ViewNumber, what), "no-proposal")
		return
	}
	req := pp.(*vt.Payload).Body.(*vt.PrepareRequest)
	if hd.Ts != req.Ts || hd.Nonce != req.N || !sameHashes(hd.TxHashes, req.Hashes) {
		w.Fail("C02", fmt.Sprintf("node %d height %d: %s content (ts=%d nonce=%d txs=%d) differs from the proposal (ts=%d nonce=%d txs=%d)", n.ID, d.BlockIndex, what, hd.Ts, hd.Nonce, len(hd.TxHashes), req.Ts, req.N, len(req.Hashes)), "content-mismatch")
		return
	}
	if len(txs) != len(req.Hashes) {
		w.Fail("C02", fmt.Sprintf("node %d height %d: %s carries %d transactions, proposal lists %d", n.ID, d.BlockIndex, what, len(txs), len(req.Hashes)), "tx-count")
		return
	}
	for i, tx := range txs {
		if tx == nil || tx.Hash() != req.Hashes[i] {
			w.Fail("C02", fmt.Sprintf("node %d height %d: %s transaction %d differs from the proposed order", n.ID, d.BlockIndex, what, i), "tx-order")
			return
		}
	}
}

// ---- C03 non-equivocation and commit lock -------------------------------------

type c03state struct {
	req, resp  map[byte]vt.H
	commit     Payload
	precommit  Payload
	locked     bool
	lockView   byte
	maxView    byte
	afterLock  bool
	haveAnyOwn bool
}

// MonC03Signatures is the one clause of C03 that holds whatever an operator does to a node's watch-only flag or key
// in the middle of a height: a node that is not faulty never broadcasts two different commits or two different
// pre-commits at one height (direct or inside its own recovery messages).  Used in worlds with flag flips, where a
// committed node that is silenced for a while legitimately follows the others to another view (seeded change C01m).
func MonC03Signatures() *Mon {
	type key struct {
		n *Node
		h uint32
		t dbft.MessageType
	}
	first := map[key]Payload{}
	check := func(n *Node, e Payload, via string) {
		if e.T != dbft.CommitType && e.T != dbft.PreCommitType {
			return
		}
		k := key{n, e.Ht, e.T}
		if f, ok := first[k]; ok && f.Hash() != e.Hash() {
			kk := "two-commits"
			if e.T == dbft.PreCommitType {
				kk = "two-precommits"
			}
			n.W.Fail("C03", fmt.Sprintf("node %d height %d: two different %ss (%s): %s vs %s", n.ID, e.Ht, vt.ShortType(e.T), via, f.Summary(), e.Summary()), kk)
		} else if !ok {
			first[k] = e
		} else {
			n.W.Stat("c03_commitment_repeated_identically")
		}
	}
	return &Mon{Name: "C03sig",
		Restarted: func(n *Node) {
			for k := range first {
				if k.n == n {
					delete(first, k)
				}
			}
		},
		Broadcast: func(n *Node, p Payload) {
			if n.Faulty {
				return
			}
			check(n, p, "direct")
			if rm, ok := p.Body.(*vt.RecoveryMessage); ok {
				for _, e := range rm.Embedded {
					if e.Author == n.ID && e.Ht == p.Ht {
						check(n, e, "inside own recovery message")
					}
				}
			}
		},
	}
}

func MonC03() *Mon {
	st := map[*Node]map[uint32]*c03state{}
	get := func(n *Node, h uint32) *c03state {
		m := st[n]
		if m == nil {
			m = map[uint32]*c03state{}
			st[n] = m
		}
		s := m[h]
		if s == nil {
			s = &c03state{req: map[byte]vt.H{}, resp: map[byte]vt.H{}}
			m[h] = s
		}
		return s
	}
	checkOwn := func(n *Node, s *c03state, e Payload, via string) {
		w := n.W
		switch e.T {
		case dbft.PrepareRequestType:
			if h, ok := s.req[e.V]; ok && h != e.Hash() {
				w.Fail("C03", fmt.Sprintf("node %d height %d view %d: two different proposals (%s)", n.ID, e.Ht, e.V, via), "two-proposals")
			}
			s.req[e.V] = e.Hash()
		case dbft.PrepareResponseType:
			if h, ok := s.resp[e.V]; ok && h != e.Hash() {
				w.Fail("C03", fmt.Sprintf("node %d height %d view %d: two different prepare responses (%s)", n.ID, e.Ht, e.V, via), "two-responses")
			}
			s.resp[e.V] = e.Hash()
		case dbft.CommitType:
			if s.commit != nil && s.commit.Hash() != e.Hash() {
				w.Fail("C03", fmt.Sprintf("node %d height %d: two different commits (%s): %s vs %s", n.ID, e.Ht, via, s.commit.Summary(), e.Summary()), "two-commits")
			}
			if s.commit == nil {
				s.commit = e
			}
		case dbft.PreCommitType:
			if s.precommit != nil && s.precommit.Hash() != e.Hash() {
				w.Fail("C03", fmt.Sprintf("node %d height %d: two different pre-commits (%s)", n.ID, e.Ht, via), "two-precommits")
			}
			if s.precommit == nil {
				s.precommit = e
			}
		}
	}
	return &Mon{Name: "C03",
		Restarted: func(n *Node) { delete(st, n) },
		Broadcast: func(n *Node, p Payload) {
			if n.Faulty {
				return
			}
			w := n.W
			s := get(n, p.Ht)
			if s.haveAnyOwn && p.V < s.maxView {
				w.Fail("C03", fmt.Sprintf("node %d height %d: own payload view went down from %d to %d (%s)", n.ID, p.Ht, s.maxView, p.V, p.Summary()), "view-decreased")
			}
			s.haveAnyOwn = true
			if p.V > s.maxView {
				s.maxView = p.V
			}
			if s.locked && p.T == dbft.ChangeViewType {
				w.Fail("C03", fmt.Sprintf("node %d height %d: ChangeView broadcast after own commit/pre-commit", n.ID, p.Ht), "cv-after-commit")
			}
			if s.locked && p.V != s.lockView {
				w.Fail("C03", fmt.Sprintf("node %d height %d: payload of view %d broadcast after committing in view %d (%s)", n.ID, p.Ht, p.V, s.lockView, p.Summary()), "payload-other-view-after-commit")
			}
			checkOwn(n, s, p, "direct")
			if rm, ok := p.Body.(*vt.RecoveryMessage); ok {
				for _, e := range rm.Embedded {
					if e.Author == n.ID && e.Ht == p.Ht {
						checkOwn(n, s, e, "inside own recovery message")
					}
				}
			}
			if (p.T == dbft.CommitType || p.T == dbft.PreCommitType) && !s.locked {
				s.locked, s.lockView = true, p.V
			}
		},
		BeforeCall: func(n *Node, c *Call) {
			if n.Faulty || n.D.Validators == nil {
				return
			}
			s := get(n, n.D.BlockIndex)
			if s.locked && (c.Kind == CTimeout || (c.Kind == CReceive && c.P.T == dbft.ChangeViewType && c.P.Ht == n.D.BlockIndex)) {
				if !s.afterLock {
					s.afterLock = true
					n.W.Stat("c03_pressure_after_lock")
				}
			}
		},
		AfterCall: func(n *Node, c *Call) {
			if n.Faulty || c.Kind == CStart || c.Kind == CReset {
				return
			}
			if n.D.BlockIndex != c.PreHeight {
				n.W.Fail("C03", fmt.Sprintf("node %d: height changed from %d to %d inside %s", n.ID, c.PreHeight, n.D.BlockIndex, c.Kind), "height-changed-in-call")
				return
			}
			s := get(n, n.D.BlockIndex)
			if s.locked && n.D.ViewNumber != s.lockView {
				n.W.Fail("C03", fmt.Sprintf("node %d height %d: moved to view %d after committing in view %d", n.ID, n.D.BlockIndex, n.D.ViewNumber, s.lockView), "view-moved-after-commit")
			}
			if n.D.ViewNumber < c.PreView {
				n.W.Fail("C03", fmt.Sprintf("node %d height %d: view decreased %d -> %d", n.ID, n.D.BlockIndex, c.PreView, n.D.ViewNumber), "view-number-decreased")
			}
		},
	}
}

// ---- C04 quorum-gated progress ---------------------------------------------------

func MonC04() *Mon {
	type ver struct {
		ok   bool
		h    uint32
		v    byte
		have bool
	}
	lastVerify := map[*Node]*ver{}
	return &Mon{Name: "C04",
		VerifyBlock: func(n *Node, ok bool) {
			lastVerify[n] = &ver{ok: ok, h: n.D.BlockIndex, v: n.D.ViewNumber, have: true}
		},
		VerifyTxs: func(n *Node, txs []dbft.Transaction[vt.H]) {
			// the block put before the verification callback is the proposal's block: its transactions, all of them, in order
			d := n.D
			same := len(txs) == len(d.TransactionHashes)
			for i := 0; same && i < len(txs); i++ {
				same = txs[i] != nil && txs[i].Hash() == d.TransactionHashes[i]
			}
			if !same && !n.Faulty {
				n.W.Fail("C04", fmt.Sprintf("node %d height %d view %d: the verification callback was shown a block that does not hold the proposal's %d transactions (a missing or foreign transaction)", n.ID, d.BlockIndex, d.ViewNumber, len(d.TransactionHashes)), "verified-other-block")
			}
		},
		Broadcast: func(n *Node, p Payload) {
			if n.Faulty {
				return
			}
			w, d := n.W, n.D
			h, v := d.BlockIndex, d.ViewNumber
			N := len(d.Validators)
			M := refM(N)
			pi := refPrimary(h, v, N)
			ks := known(n, h)
			findReq := func() Payload {
				for _, q := range ks {
					if q.T == dbft.PrepareRequestType && q.Ht == h && q.V == v && int(q.Idx) == pi && authenticAt(w, q, h) {
						if p.T != dbft.PrepareResponseType || p.Body.(*vt.PrepareResponse).Prep == q.Hash() {
							return q
						}
					}
				}
				return nil
			}
			switch {
			case p.T == dbft.PrepareResponseType:
				if p.Ht != h || p.V != v {
					w.Fail("C04", fmt.Sprintf("node %d: response for (%d,%d) broadcast at (%d,%d)", n.ID, p.Ht, p.V, h, v), "response-wrong-epoch")
					return
				}
				q := findReq()
				if q == nil {
					w.Fail("C04", fmt.Sprintf("node %d height %d view %d: prepare response names %s but no proposal with that hash from the primary (index %d) was ever delivered", n.ID, h, v, p.Body.(*vt.PrepareResponse).Prep, pi), "response-without-primary-proposal")
					return
				}
				for _, th := range q.Body.(*vt.PrepareRequest).Hashes {
					if _, ok := d.Transactions[th]; !ok {
						w.Fail("C04", fmt.Sprintf("node %d height %d view %d: prepare response while transaction %s of the proposal is not held", n.ID, h, v, th), "response-missing-tx")
						return
					}
				}
				lv := lastVerify[n]
				if lv == nil || !lv.have || lv.h != h || lv.v != v || !lv.ok {
					w.Fail("C04", fmt.Sprintf("node %d height %d view %d: prepare response without a successful block verification in this view", n.ID, h, v), "response-without-verification")
				}
				if len(n.Seen[h]) > 0 {
					w.Stat("c04_response_checked")
				}
			case (p.T == dbft.CommitType && !w.Cfg.AMEVOn(h)) || p.T == dbft.PreCommitType:
				if n.PastLife {
					// a restarted node that re-broadcasts the (pre-)commit of its previous life, handed back by a peer: the
					// evidence for that statement belonged to the previous instance
					for _, e := range n.Seen[p.Ht] {
						if e.Author == n.ID && e.T == p.T && e.Hash() == p.Hash() {
							w.Stat("c04_retransmission_of_previous_life")
							return
						}
					}
				}
				if p.Ht != h || p.V != v {
					w.Fail("C04", fmt.Sprintf("node %d: %s for (%d,%d) broadcast at (%d,%d)", n.ID, p.T, p.Ht, p.V, h, v), "commit-wrong-epoch")
					return
				}
				tp := d.PreparationPayloads[pi]
				if tp == nil || tp.Type() != dbft.PrepareRequestType {
					w.Fail("C04", fmt.Sprintf("node %d height %d view %d: %s broadcast without holding the proposal", n.ID, h, v, p.T), "commit-without-proposal")
					return
				}
				q := tp.(*vt.Payload)
				if int(q.Idx) != pi || q.V != v || !authenticAt(w, q, h) {
					w.Fail("C04", fmt.Sprintf("node %d height %d view %d: stored proposal is not from the primary", n.ID, h, v), "proposal-not-from-primary")
					return
				}
				for _, th := range q.Body.(*vt.PrepareRequest).Hashes {
					if _, ok := d.Transactions[th]; !ok {
						w.Fail("C04", fmt.Sprintf("node %d height %d view %d: %s while a proposed transaction is missing", n.ID, h, v, p.T), "commit-missing-tx")
						return
					}
				}
				qh := q.Hash()
				match := func(e Payload) bool {
					if e.Ht != h || e.V != v || !authenticAt(w, e, h) {
						return false
					}
					if e.T == dbft.PrepareRequestType {
						return e.Hash() == qh
					}
					if e.T == dbft.PrepareResponseType {
						return e.Body.(*vt.PrepareResponse).Prep == qh && int(e.Idx) != pi
					}
					return false
				}
				tcount := 0
				for _, e := range d.PreparationPayloads {
					if e != nil && match(e.(*vt.Payload)) {
						tcount++
					}
				}
				hcount := countDistinct(ks, match)
				if tcount < M || hcount < M {
					w.Fail("C04", fmt.Sprintf("node %d height %d view %d: %s broadcast with %d matching preparations in the table and %d ever delivered (M=%d)", n.ID, h, v, p.T, tcount, hcount, M), "commit-without-prep-quorum")
				}
				nm := 0
				for _, e := range ks {
					if e.Ht == h && e.V == v && e.T == dbft.PrepareResponseType && e.Body.(*vt.PrepareResponse).Prep != qh {
						nm++
					}
				}
				if nm > 0 {
					w.Stat("c04_commit_with_mismatching_prep_present")
				}
				w.Stat("c04_commit_checked")
			}
		},
		AfterCall: func(n *Node, c *Call) {
			if n.Faulty {
				return
			}
			w, d := n.W, n.D
			base := c.PreView
			if c.Kind == CStart || c.Kind == CReset || c.PreHeight != d.BlockIndex {
				base = 0
			}
			v := d.ViewNumber
			if v <= base {
				return
			}
			h := d.BlockIndex
			M := refM(len(d.Validators))
			isCV := func(e Payload) bool {
				return e.T == dbft.ChangeViewType && e.Ht == h && authenticAt(w, e, h) && e.Body.(*vt.ChangeView).NewView >= v
			}
			hcount := countDistinct(known(n, h), isCV)
			tcount := 0
			for _, e := range d.LastChangeViewPayloads {
				if e != nil && isCV(e.(*vt.Payload)) {
					tcount++
				}
			}
			if hcount < M || tcount < M {
				w.Fail("C04", fmt.Sprintf("node %d height %d: entered view %d (from %d) with change views for >=%d from %d validators in the table and %d ever delivered (M=%d)", n.ID, h, v, base, v, tcount, hcount, M), "view-change-without-quorum")
			}
			w.Stat("c04_viewchange_checked")
		},
	}
}

// ---- C10 no lost wake-up -----------------------------------------------------------

func MonC10() *Mon {
	// "has not yet accepted a block" is judged by what the application was handed, not by the library's own flag
	accepted := func(n *Node) bool { return len(n.Accepted[n.D.BlockIndex]) > 0 }
	preAcc := map[*Node]bool{}
	return &Mon{Name: "C10",
		BeforeCall: func(n *Node, c *Call) {
			preAcc[n] = n.D.Validators != nil && accepted(n)
		},
		TimerReset: func(n *Node, h uint32, v byte, d time.Duration) {
			if d < 0 {
				key := "negative-duration"
				if v >= 20 {
					key = "D8-negative-duration-high-view"
				}
				n.W.Fail("C10", fmt.Sprintf("node %d: Timer.Reset(h=%d, v=%d) with negative duration %s", n.ID, h, v, d), key)
			}
		},
		AfterCall: func(n *Node, c *Call) {
			d := n.D
			if !n.Active() || accepted(n) {
				return
			}
			if n.FlagCleared && n.D.BlockIndex == n.FlagClearedH && n.D.ViewNumber == n.FlagClearedV {
				// The application cleared this validator's watch-only flag in the middle of the view it is still in.  A
				// node that enters a view as watch-only arms no timer (by design) and timers are armed at initialisation
				// and on timeouts only, so it stays without one until its next view or height.  Not judged here: the
				// property's "validator" is read as a node that has been one since it entered its epoch (see DESIGN §6).
				n.W.Stat("c10_not_judged_flag_cleared_mid_view")
				return
			}
			w, t := n.W, n.Timer
			if d.BlockSent() {
				w.Fail("C10", fmt.Sprintf("node %d height %d: the library considers the height decided although the application was handed no block", n.ID, d.BlockIndex), "decided-without-block")
				return
			}
			if !t.Set || !t.Pending {
				w.Fail("C10", fmt.Sprintf("node %d height %d view %d: no timer pending after %s", n.ID, d.BlockIndex, d.ViewNumber, c.Kind), "no-timer")
				return
			}
			if t.H != d.BlockIndex || t.V != d.ViewNumber {
				w.Fail("C10", fmt.Sprintf("node %d: timer armed for (%d,%d) but the node is at (%d,%d) after %s", n.ID, t.H, t.V, d.BlockIndex, d.ViewNumber, c.Kind), "timer-wrong-epoch")
				return
			}
			if t.D < 0 {
				key := "negative-duration"
				if t.V >= 20 {
					key = "D8-negative-duration-high-view"
				}
				w.Fail("C10", fmt.Sprintf("node %d: timer duration %s is negative", n.ID, t.D), key)
			}
			if c.Kind == CTimeout && !preAcc[n] && c.H == c.PreHeight && c.V == c.PreView {
				w.Stat("c10_timeout_consumed")
				if t.Resets == c.PreResets {
					w.Fail("C10", fmt.Sprintf("node %d height %d view %d: timeout for the current epoch did not re-arm the timer", n.ID, c.H, c.V), "timeout-not-rearmed")
				}
			}
			if d.ViewNumber != c.PreView && c.PreHeight == d.BlockIndex {
				w.Stat("c10_view_changed")
			}
		},
	}
}
