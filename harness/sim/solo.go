package sim

import (
	"time"

	"github.com/nspcc-dev/dbft"
	"github.com/nspcc-dev/dbft/verifharness/vt"
)

// Solo is driver B: one real node under test, every other validator is
// played by the harness, which builds their payloads from the node's own
// outputs ("the proposal it just broadcast", "a valid commit of validator j
// for its current proposal", ...).
type Solo struct {
	W *World
	N *Node
}

// NewSolo builds a world in which only identity `self` is a library instance.
func NewSolo(cfg Cfg, r Src, self int, watchFlag bool, mons []*Mon, keepLog bool) *Solo {
	var byz []int
	for id := 0; id < cfg.IDs; id++ {
		if id != self {
			byz = append(byz, id)
		}
	}
	w := NewWorld(cfg, r, byz, map[int]bool{self: watchFlag}, mons, keepLog)
	return &Solo{W: w, N: w.Nodes[self]}
}

func (s *Solo) H() uint32 { return s.N.D.BlockIndex }
func (s *Solo) V() byte   { return s.N.D.ViewNumber }
func (s *Solo) NVal() int { return len(s.N.D.Validators) }

// Primary is the validator index of the primary of (current height, v).
func (s *Solo) Primary(v byte) int { return refPrimary(s.H(), v, s.NVal()) }

func (s *Solo) idOf(idx int) int { return s.W.Cfg.Validators(s.H())[idx] }

func (s *Solo) mk(t dbft.MessageType, idx int, v byte, body any) Payload {
	return vt.New(t, s.H(), v, uint16(idx), s.idOf(idx), body)
}

// Proposal builds a proposal of the primary of view v.
func (s *Solo) Proposal(v byte, ts, nonce uint64, txs ...vt.Tx) Payload {
	hs := make([]vt.H, len(txs))
	for i, tx := range txs {
		hs[i] = tx.Hash()
	}
	p := s.mk(dbft.PrepareRequestType, s.Primary(v), v, &vt.PrepareRequest{Ts: ts, N: nonce, Hashes: hs})
	s.W.Proposals = append(s.W.Proposals, p)
	return p
}

// NextTs is a timestamp acceptable after the node's tip.
func (s *Solo) NextTs() uint64 { return s.N.TipTs + s.W.Cfg.TsIncrement }

func (s *Solo) Response(idx int, v byte, prep vt.H) Payload {
	return s.mk(dbft.PrepareResponseType, idx, v, &vt.PrepareResponse{Prep: prep})
}
func (s *Solo) CV(idx int, v, newView byte) Payload {
	return s.mk(dbft.ChangeViewType, idx, v, &vt.ChangeView{NewView: newView, R: dbft.CVTimeout, Ts: uint64(s.N.Now().UnixNano())})
}
func (s *Solo) RecoveryRequest(idx int, v byte) Payload {
	return s.mk(dbft.RecoveryRequestType, idx, v, &vt.RecoveryRequest{Ts: uint64(s.N.Now().UnixNano())})
}

// header returns the header for proposal p on top of the node's tip.
func (s *Solo) header(p Payload) vt.Header {
	return headerOf(p, s.N.D.PrevHash)
}

// Commit builds validator idx's valid commit for proposal p (non-anti-MEV: the
// block built from the proposal; anti-MEV: the final block of its pre-block).
func (s *Solo) Commit(idx int, p Payload) Payload {
	b := &vt.Block{Header: s.header(p), AMEV: s.W.Cfg.AMEVOn(s.H())}
	return s.mk(dbft.CommitType, idx, p.V, &vt.Commit{Sig: b.SignFor(s.idOf(idx))})
}
func (s *Solo) BadCommit(idx int, v byte, salt int) Payload {
	return s.mk(dbft.CommitType, idx, v, &vt.Commit{Sig: vt.Mac("garbage", salt, nil)})
}
func (s *Solo) PreCommit(idx int, p Payload) Payload {
	pb := &vt.PreBlock{Header: s.header(p)}
	return s.mk(dbft.PreCommitType, idx, p.V, &vt.PreCommit{D: pb.DataFor(s.idOf(idx))})
}
func (s *Solo) BadPreCommit(idx int, v byte, salt int) Payload {
	return s.mk(dbft.PreCommitType, idx, v, &vt.PreCommit{D: vt.Mac("garbage", salt, nil)})
}

// Recovery wraps payloads into a recovery message of validator idx.
func (s *Solo) Recovery(idx int, v byte, embedded ...Payload) Payload {
	return s.mk(dbft.RecoveryMessageType, idx, v, &vt.RecoveryMessage{Embedded: embedded})
}

// LastOwn returns the node's latest broadcast of type t at the current height (or nil).
func (s *Solo) LastOwn(t dbft.MessageType) Payload {
	own := s.N.Own[s.H()]
	for i := len(own) - 1; i >= 0; i-- {
		if own[i].T == t {
			return own[i]
		}
	}
	return nil
}

// Others lists validator indices other than the node's own.
func (s *Solo) Others() []int {
	var out []int
	for i := 0; i < s.NVal(); i++ {
		if i != s.N.D.MyIndex {
			out = append(out, i)
		}
	}
	return out
}

// Advance moves the virtual clock.
func (s *Solo) Advance(d time.Duration) { s.W.Clock = s.W.Clock.Add(d) }

// Fire consumes the pending timer (advancing the clock to its deadline if needed).
func (s *Solo) Fire() {
	t := s.N.Timer
	if dl := t.Deadline(); dl.After(s.N.Now()) {
		s.W.Clock = s.W.Clock.Add(dl.Sub(s.N.Now()))
	}
	s.W.FireTimer(s.N)
}

// AcceptAndReset completes the height: if the node accepted a block, Reset.
func (s *Solo) ResetIfNeeded() bool {
	if s.N.NeedInit {
		s.N.Reset()
		return true
	}
	return false
}

// SkipHeight lets the application adopt a block for the next height "by other
// means" (ledger synchronisation) and re-initialises the node.
func (s *Solo) SkipHeight() {
	n := s.N
	b := &vt.Block{Header: vt.Header{Idx: n.Tip + 1, Prev: n.TipHash, Ts: n.TipTs + s.W.Cfg.TsIncrement, Nonce: 99}}
	n.applyBlock(b)
	n.Reset()
}

// Sync lets the application adopt k blocks "by other means" (ledger synchronisation) and re-initialises the node
// once, at the end: the heights in between are never entered.
func (s *Solo) Sync(k int) {
	n := s.N
	for i := 0; i < k; i++ {
		b := &vt.Block{Header: vt.Header{Idx: n.Tip + 1, Prev: n.TipHash, Ts: n.TipTs + s.W.Cfg.TsIncrement, Nonce: uint64(90 + i)}}
		n.applyBlock(b)
	}
	n.Reset()
}

// At builds a payload of validator idx for another height (the validator list of that height decides the author).
func (s *Solo) At(h uint32, t dbft.MessageType, idx int, v byte, body any) Payload {
	return vt.New(t, h, v, uint16(idx), s.W.Cfg.Validators(h)[idx], body)
}
