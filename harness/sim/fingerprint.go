package sim

import (
	"fmt"
	"sort"
	"strings"

	"github.com/nspcc-dev/dbft"
	"github.com/nspcc-dev/dbft/verifharness/vt"
)

// FP options: what to leave out of the whole-state fingerprint.
type FPOpt struct {
	NoLastSeen bool
	NoCache    bool
	NoTimer    bool
}

func fpTable(sb *strings.Builder, name string, t []dbft.ConsensusPayload[vt.H]) {
	sb.WriteString(name)
	sb.WriteByte('[')
	for i, p := range t {
		if p == nil {
			sb.WriteString("-,")
			continue
		}
		fmt.Fprintf(sb, "%d:%s,", i, p.Hash())
	}
	sb.WriteString("]\n")
}

// Fingerprint is a canonical dump of the whole state of a node's library
// instance: exported Context tables and scalars, unexported flags and the
// future-message cache (through the verif accessors) and the timer record.
func Fingerprint(n *Node, o FPOpt) string {
	d := n.D
	var sb strings.Builder
	fmt.Fprintf(&sb, "h=%d v=%d my=%d prim=%d prev=%s ts=%d nonce=%d n=%d\n", d.BlockIndex, d.ViewNumber, d.MyIndex, d.PrimaryIndex, d.PrevHash, d.Timestamp, d.Nonce, len(d.Validators))
	sb.WriteString("vals:")
	for _, v := range d.Validators {
		fmt.Fprintf(&sb, "%v,", v)
	}
	sb.WriteString("\ntxh:")
	for _, h := range d.TransactionHashes {
		sb.WriteString(h.String() + ",")
	}
	fmt.Fprintf(&sb, " nil=%v\nmissing:", d.TransactionHashes == nil)
	for _, h := range d.MissingTransactions {
		sb.WriteString(h.String() + ",")
	}
	sb.WriteString("\ntxs:")
	keys := make([]string, 0, len(d.Transactions))
	for h := range d.Transactions {
		keys = append(keys, h.String())
	}
	sort.Strings(keys)
	sb.WriteString(strings.Join(keys, ","))
	sb.WriteByte('\n')
	fpTable(&sb, "prep", d.PreparationPayloads)
	fpTable(&sb, "precommit", d.PreCommitPayloads)
	fpTable(&sb, "commit", d.CommitPayloads)
	fpTable(&sb, "cv", d.ChangeViewPayloads)
	fpTable(&sb, "lastcv", d.LastChangeViewPayloads)
	if !o.NoLastSeen {
		sb.WriteString("lastseen:")
		for _, hv := range d.LastSeenMessage {
			if hv == nil {
				sb.WriteString("-,")
			} else {
				fmt.Fprintf(&sb, "%d/%d,", hv.Height, hv.View)
			}
		}
		sb.WriteByte('\n')
	}
	f := d.VerifFlags()
	fmt.Fprintf(&sb, "flags:%+v\n", f)
	if !o.NoCache {
		c := d.VerifCachedPayloads()
		hs := make([]int, 0, len(c))
		for h := range c {
			hs = append(hs, int(h))
		}
		sort.Ints(hs)
		for _, h := range hs {
			e := c[uint32(h)]
			fmt.Fprintf(&sb, "cache[%d]:", h)
			for k := range e {
				for _, p := range e[k] {
					fmt.Fprintf(&sb, "%d/%d:%s,", k, p.ValidatorIndex(), p.Hash())
				}
				sb.WriteByte('|')
			}
			sb.WriteByte('\n')
		}
	}
	if !o.NoTimer {
		t := n.Timer
		fmt.Fprintf(&sb, "timer: h=%d v=%d at=%d d=%d pending=%v resets=%d extends=%d\n", t.H, t.V, t.At.UnixNano(), t.D, t.Pending, t.Resets, t.Extends)
	}
	fmt.Fprintf(&sb, "cb: log=%d\n", 0)
	return sb.String()
}

// FirstDiff returns the first differing line of two fingerprints.
func FirstDiff(a, b string) string {
	la, lb := strings.Split(a, "\n"), strings.Split(b, "\n")
	for i := 0; i < len(la) || i < len(lb); i++ {
		var x, y string
		if i < len(la) {
			x = la[i]
		}
		if i < len(lb) {
			y = lb[i]
		}
		if x != y {
			return fmt.Sprintf("before: %q after: %q", x, y)
		}
	}
	return ""
}
