package sim

import (
	"time"

	"github.com/nspcc-dev/dbft"
	"github.com/nspcc-dev/dbft/verifharness/vt"
)

// DeliverWhere delivers (and removes) every in-flight item matching pred, in order.
func (w *World) DeliverWhere(pred func(m *Msg) bool) int {
	n := 0
	for {
		idx := -1
		for i, m := range w.Flight {
			if pred(m) {
				idx = i
				break
			}
		}
		if idx < 0 {
			return n
		}
		w.Deliver(idx, false)
		n++
	}
}

// ScenarioD1Fork is the deterministic agreement counterexample that rests on defect D1
// (a commit that reaches a backup before the proposal of its view is never verified):
// N=4, validator 0 is Byzantine and primary; it proposes A to nodes 1 and 3 and B to node 2.
// Nodes 1 and 3 prepare and commit A; their commits reach node 2 before proposal B does.
// Node 2 then receives B and the Byzantine commit for B: it counts the two unverified commits
// for A and accepts B, while nodes 1 and 3 accept A with the Byzantine commit for A.
func ScenarioD1Fork(mons []*Mon, keepLog bool, src Src) *World {
	base := []int{0, 1, 2, 3}
	cfg := Cfg{IDs: 4, Validators: func(uint32) []int { return base }, ValDesc: "const[0..3]", StartTip: 3, AMEVHeight: -1,
		TimePerBlock: time.Second, TsIncrement: 1_000_000, Epoch: time.Date(2024, 1, 1, 0, 0, 0, 0, time.UTC)}
	w := NewWorld(cfg, src, []int{0}, nil, mons, keepLog)
	w.StartAll() // height 4: primary index 0 = the Byzantine identity
	n1, n2, n3 := w.Nodes[1], w.Nodes[2], w.Nodes[3]
	h := uint32(4)
	ts := n1.TipTs + cfg.TsIncrement
	propA := vt.New(dbft.PrepareRequestType, h, 0, 0, 0, &vt.PrepareRequest{Ts: ts, N: 1})
	propB := vt.New(dbft.PrepareRequestType, h, 0, 0, 0, &vt.PrepareRequest{Ts: ts, N: 2})
	w.Proposals = append(w.Proposals, propA, propB)
	blk := func(p Payload) *vt.Block { return &vt.Block{Header: headerOf(p, n1.TipHash)} }
	commit := func(p Payload) Payload {
		return vt.New(dbft.CommitType, h, 0, 0, 0, &vt.Commit{Sig: blk(p).SignFor(0)})
	}
	w.act("byz(0) proposal A -> 1,3")
	n1.Receive(propA)
	n3.Receive(propA)
	// responses of 1 and 3 reach each other: both hold {0,1,3} and commit A
	w.DeliverWhere(func(m *Msg) bool { return m.P.T == dbft.PrepareResponseType && (m.To == 1 || m.To == 3) })
	// their commits reach node 2 before any proposal does
	w.DeliverWhere(func(m *Msg) bool { return m.P.T == dbft.CommitType && m.To == 2 })
	w.act("byz(0) proposal B -> 2, then commit(B) -> 2")
	n2.Receive(propB)
	n2.Receive(commit(propB))
	w.act("byz(0) commit(A) -> 1,3")
	n1.Receive(commit(propA))
	n3.Receive(commit(propA))
	w.DeliverWhere(func(m *Msg) bool { return m.P.T == dbft.CommitType && (m.To == 1 || m.To == 3) })
	w.Finish()
	return w
}

// ScenarioD20Lock is the dBFT 2.0 liveness lock with four honest validators and a healed
// partition (known finding D20): the primary (0) asks for a view change after the heal and then,
// seeing one commit and one validator it has not heard from, still accepts the third
// preparation and commits in view 0; validators 2 and 3 have meanwhile moved to view 1 with its
// request.  Afterwards every message is delivered and every timer fires, round after round:
// 0 and 1 stay commit-locked in view 0, 2 and 3 can never gather M in any later view.
func ScenarioD20Lock(mons []*Mon, keepLog bool, src Src, rounds int) *World {
	base := []int{0, 1, 2, 3}
	cfg := Cfg{IDs: 4, Validators: func(uint32) []int { return base }, ValDesc: "const[0..3]", StartTip: 3, AMEVHeight: -1,
		TimePerBlock: time.Second, TsIncrement: 1_000_000, Epoch: time.Date(2024, 1, 1, 0, 0, 0, 0, time.UTC)}
	w := NewWorld(cfg, src, nil, nil, mons, keepLog)
	w.StartAll() // height 4: primary index 0
	p, x, z, y := w.Nodes[0], w.Nodes[1], w.Nodes[2], w.Nodes[3]
	to := func(t dbft.MessageType, from int, dst ...int) {
		w.DeliverWhere(func(m *Msg) bool {
			if m.P.T != t || m.From != from {
				return false
			}
			for _, d := range dst {
				if m.To == d {
					return true
				}
			}
			return false
		})
	}
	w.act("-- partition {0,1} | {2,3}; the proposal still reaches 2")
	w.FireTimer(p)
	to(dbft.PrepareRequestType, 0, 1, 2)
	to(dbft.PrepareResponseType, 1, 0)
	to(dbft.PrepareResponseType, 2, 3)
	w.FireTimer(z) // hears only the primary: recovery request
	w.FireTimer(y)
	to(dbft.RecoveryRequestType, 2, 3)
	to(dbft.RecoveryRequestType, 3, 2)
	w.FireTimer(z) // has heard 0 and 3: asks for view 1
	w.act("-- heal")
	w.FireTimer(x)
	to(dbft.RecoveryRequestType, 1, 0, 2, 3)
	to(dbft.ChangeViewType, 2, 0, 1, 3)
	w.FireTimer(y) // has heard 1 and 2: asks for view 1
	to(dbft.ChangeViewType, 3, 2)
	w.FireTimer(p) // has heard 1 and 2, not 3: asks for view 1
	to(dbft.ChangeViewType, 0, 2, 3)
	to(dbft.PrepareResponseType, 2, 1) // 1 holds {0,1,2}: commits
	to(dbft.CommitType, 1, 0)
	to(dbft.PrepareResponseType, 2, 0) // 0 is view changing, but one committed + one unheard > F: accepts, commits
	w.act("-- everything in flight is delivered; then synchronous rounds")
	for r := 0; r < rounds; r++ {
		for len(w.Flight) > 0 {
			w.Deliver(0, false)
		}
		for _, n := range w.Nodes {
			if n != nil && n.Timer.Pending && !n.D.BlockSent() {
				w.FireTimer(n)
			}
		}
	}
	for len(w.Flight) > 0 {
		w.Deliver(0, false)
	}
	w.TimedRes = &Timed{W: w, O: TimedOpts{Heights: 1}, HitLimit: "rounds"}
	w.Finish()
	return w
}
