package sim

import (
	"sort"
	"time"

	"github.com/nspcc-dev/dbft"
	"github.com/nspcc-dev/dbft/verifharness/vt"
)

// Timed mode: a discrete-event simulation. Latencies are drawn in [0, MaxLat],
// timers fire exactly at their deadline, the order of events falling on the
// same instant is drawn.

// Sched is a scheduled external event.
type Sched struct {
	At   time.Duration // since epoch
	Kind string        // cut, heal, crash, restart, tx
	Set  []int         // identities (cut)
	Node int
	Tx   vt.Tx
	To   []int // tx recipients
	// event-triggered faults ("a fault at a particular point"): instead of At, the cut starts right
	// before TrigNode's TrigCount-th timeout ("before-timeout") or right after its TrigCount-th
	// broadcast ("after-broadcast"), lasts Dur, and optionally lets messages already in flight arrive.
	Trig      string
	TrigNode  int
	TrigCount int
	Dur       time.Duration
	// "after-proposal" items: dropped when the proposal came AvoidGap±AvoidWin after the previous one
	AvoidGap, AvoidWin time.Duration
	KeepInFlight       bool
	Split              bool // one recipient's share of a gossiped transaction (the universe knows it already)
	done               bool
}

type TimedOpts struct {
	Heights    int           // goal: every live node's ledger reaches StartTip+Heights
	Horizon    time.Duration // virtual-time limit
	MaxEvents  int
	MaxLat     time.Duration
	SyncPeriod time.Duration // block synchronisation period (0: off)
	DupPct     int           // percent of deliveries that are duplicated once
	ResetLag   time.Duration // Reset follows the ledger advance after a drawn delay in [0, ResetLag]
	Silent     []int         // identities that are down from the start and never come back
	Plan       []Sched
	InitialTxs int // transactions in every pool at start
	// TxLag: the initial transactions have reached only a drawn part of the pools; a node that is asked for one it
	// lacks is handed it (OnTransaction) within one latency of the request - transaction gossip in a fault-free network
	TxLag bool
	// ForeignTxPct: chance that, right before a requested transaction is handed over, the application passes the node
	// another transaction it has just received - one the proposal does not name (applications like neo-go pass every
	// incoming transaction to OnTransaction); it joins the node's pool like any other (seeded change C08n)
	ForeignTxPct int
	// TxJitter: a new transaction reaches the pools one by one, each within one latency (gossip), instead of at one instant;
	// a node that has asked its application for it is handed it (OnTransaction) when it arrives.
	TxJitter bool
	// TxAvoidGap/TxAvoidWin: a new transaction that would appear TxAvoidGap±TxAvoidWin after the latest proposal is
	// dropped (the instant at which the backups' first timeouts race the proposal it triggers: the synchrony premise
	// does not hold there; an arrival planned long ago can drift onto it when another one has triggered a block since)
	TxAvoidGap, TxAvoidWin time.Duration
	// LandOnSubscribePct: chance that a transaction reaches a node's pool while that node is registering its
	// single-use subscription - after the library's last look at the pool, before the listener exists, so that no
	// notification is sent for it (the others receive it by gossip within one latency).
	LandOnSubscribePct int
	// RightAfterSubscribePct: chance that a transaction reaches the speaker's pool a microsecond to a millisecond AFTER it
	// has registered its subscription (its first timer has just expired, a shade before the minimum block time when the
	// round-trip compensation shortened it): the notification is due and must produce the proposal (seeded change C16n)
	RightAfterSubscribePct int
	// SlowApp: identities whose application takes up to SlowLag to call Reset after a block.
	SlowApp map[int]bool
	SlowLag time.Duration
	// HealBound: the horizon is set when the last fault has happened:
	// now + Heights*TimePerBlock*2^(highest view then + F + 5).
	HealBound bool
}

type Timed struct {
	W            *World
	O            TimedOpts
	resetAt      map[*Node]time.Time
	nextSync     map[*Node]time.Time
	Events       int
	HitLimit     string // "", "horizon", "events"
	LastFault    time.Duration
	Done         bool
	HealView     int
	horizonSet   bool
	supplying    map[*Node]map[vt.H]bool
	sentSeen     int
	proposals    int
	lastProposal time.Duration
}

func (t *Timed) r(label string, n int) int {
	if n <= 1 {
		return 0
	}
	return t.W.R.Intn(label, n)
}

type tEvent struct {
	kind string // msg, timer, reset, sync, sched
	i    int
	n    *Node
}

func RunTimed(w *World, o TimedOpts) *Timed {
	t := &Timed{W: w, O: o, resetAt: map[*Node]time.Time{}, nextSync: map[*Node]time.Time{}, supplying: map[*Node]map[vt.H]bool{}}
	w.Timed = true
	w.MaxLat = o.MaxLat
	if o.LandOnSubscribePct > 0 || o.RightAfterSubscribePct > 0 {
		w.SubHook = func(n *Node) {
			// (only the speaker's subscription: a backup subscribes at its first timeout, and a transaction appearing
			// there races the other backups' first timeouts - the boundary at which the synchrony premise does not hold)
			if !n.D.IsPrimary() {
				return
			}
			if t.O.RightAfterSubscribePct > 0 && t.r("rightaftersub", 100) < t.O.RightAfterSubscribePct {
				tx := w.NewTx(false)
				now := w.Clock.Sub(w.Cfg.Epoch)
				delay := []time.Duration{time.Microsecond, 10 * time.Microsecond, 100 * time.Microsecond, time.Millisecond}[t.r("rightafterdelay", 4)]
				w.Stat("tx_right_after_subscription")
				w.act("tx %x will reach the pool of %d %s after it subscribed", uint64(tx), n.ID, delay)
				t.O.Plan = append(t.O.Plan, Sched{At: now + delay, Kind: "tx", Tx: tx, To: []int{n.ID}, Split: true})
				for _, o := range w.Nodes {
					if o != nil && o != n {
						t.O.Plan = append(t.O.Plan, Sched{At: now + delay + time.Duration(t.r("gossiplat", 21))*t.O.MaxLat/20, Kind: "tx", Tx: tx, To: []int{o.ID}, Split: true})
					}
				}
				return
			}
			if t.r("landonsub", 100) >= t.O.LandOnSubscribePct {
				return
			}
			tx := w.NewTx(false)
			n.AddTx(tx)
			w.Stat("tx_landed_while_subscribing")
			w.act("tx %x lands in the pool of %d while it subscribes", uint64(tx), n.ID)
			now := w.Clock.Sub(w.Cfg.Epoch)
			for _, o := range w.Nodes {
				if o != nil && o != n {
					t.O.Plan = append(t.O.Plan, Sched{At: now + time.Duration(t.r("gossiplat", 21))*t.O.MaxLat/20, Kind: "tx", Tx: tx, To: []int{o.ID}, Split: true})
				}
			}
		}
	}
	silent := map[int]bool{}
	for _, s := range o.Silent {
		silent[s] = true
	}
	for i := 0; i < o.InitialTxs; i++ {
		tx := w.NewTx(false)
		mask := -1
		if o.TxLag {
			mask = 1 + t.r("txlagmask", 255)
		}
		for _, n := range w.Nodes {
			if n != nil && mask&(1<<uint(n.ID%8)) != 0 {
				n.AddTx(tx)
			}
		}
	}
	for _, n := range w.Nodes {
		if n == nil {
			continue
		}
		if silent[n.ID] {
			n.Crashed = true
			n.Silent = true
			continue
		}
		w.act("start(%d)", n.ID)
		n.Start()
		if o.SyncPeriod > 0 {
			t.nextSync[n] = w.Clock.Add(o.SyncPeriod * time.Duration(1+t.r("syncphase", 4)) / 4)
		}
		t.afterCall(n)
	}
	for _, s := range o.Plan {
		if s.Kind != "tx" && s.Kind != "supply" && s.At > t.LastFault {
			t.LastFault = s.At
		}
	}
	t.maybeSetHorizon()
	for len(w.Viols) == 0 {
		if t.goal() {
			t.Done = true
			break
		}
		if t.Events >= t.O.MaxEvents {
			t.HitLimit = "events"
			break
		}
		if !t.step() {
			t.HitLimit = "idle"
			break
		}
		if w.Clock.Sub(w.Cfg.Epoch) > t.O.Horizon {
			t.HitLimit = "horizon"
			break
		}
	}
	w.TimedRes = t
	w.Finish()
	return t
}

func (t *Timed) goal() bool {
	w := t.W
	for _, n := range w.Nodes {
		if n == nil || n.Crashed {
			continue
		}
		if n.WatchFlag || n.IndexAt(n.Tip+1) < 0 {
			continue // observers are not required to keep up through consensus traffic alone
		}
		if n.Tip < w.Cfg.StartTip+uint32(t.O.Heights) {
			return false
		}
	}
	return true
}

// trigger starts event-triggered cuts whose condition is met.
func (t *Timed) trigger(kind string, n *Node, count int) {
	w := t.W
	for i := range t.O.Plan {
		s := &t.O.Plan[i]
		if s.done || s.Trig != kind || s.TrigNode != n.ID || s.TrigCount != count {
			continue
		}
		s.done = true
		if s.Kind == "crash" { // the validator goes down right after that broadcast and comes back with empty state
			now := w.Clock.Sub(w.Cfg.Epoch)
			if c := w.Nodes[s.Node]; c != nil && !c.Crashed {
				c.Crashed, c.Faulty = true, true
				delete(t.resetAt, c)
				w.Stat("crash")
				w.Stat("triggered_crash")
				w.act("crash(%d) (%s of node %d #%d) for %s", c.ID, kind, n.ID, count, s.Dur)
				t.O.Plan = append(t.O.Plan, Sched{At: now + s.Dur, Kind: "restart", Node: s.Node})
				if now+s.Dur > t.LastFault {
					t.LastFault = now + s.Dur
				}
				t.horizonSet = false
				if t.O.HealBound {
					t.O.Horizon = 1 << 62
				}
			}
			continue
		}
		w.Cut = map[int]bool{}
		for _, id := range s.Set {
			w.Cut[id] = true
		}
		if s.KeepInFlight {
			for _, m := range w.Flight {
				m.Pre = true
			}
		} else {
			kept := w.Flight[:0]
			for _, m := range w.Flight {
				if w.linked(m.From, m.To) {
					kept = append(kept, m)
				}
			}
			w.Flight = kept
		}
		w.Stat("cut")
		w.Stat("triggered_cut")
		w.act("cut %v (%s of node %d #%d, keepInFlight=%v) for %s", s.Set, kind, n.ID, count, s.KeepInFlight, s.Dur)
		now := w.Clock.Sub(w.Cfg.Epoch)
		t.O.Plan = append(t.O.Plan, Sched{At: now + s.Dur, Kind: "heal"})
		if now+s.Dur > t.LastFault {
			t.LastFault = now + s.Dur
		}
		t.horizonSet = false
		if t.O.HealBound {
			t.O.Horizon = 1 << 62
		}
	}
}

func (t *Timed) afterCall(n *Node) {
	// "after-proposal": a scheduled item becomes due Dur after the TrigCount-th proposal of the run was broadcast
	for ; t.sentSeen < len(t.W.Sent); t.sentSeen++ {
		if t.W.Sent[t.sentSeen].T != dbft.PrepareRequestType {
			continue
		}
		t.proposals++
		now := t.W.Clock.Sub(t.W.Cfg.Epoch)
		gap := now - t.lastProposal
		t.lastProposal = now
		for i := range t.O.Plan {
			if s := &t.O.Plan[i]; !s.done && s.Trig == "after-proposal" && s.TrigCount == t.proposals {
				if d := gap - s.AvoidGap; s.AvoidGap > 0 && t.proposals > 1 && d > -s.AvoidWin && d < s.AvoidWin {
					// the proposal itself races the backups' first timeout: it is not delivered before
					// that timer expires, the synchrony premise does not hold for this round
					s.done = true
					t.W.Stat("after_proposal_item_skipped_at_timeout_boundary")
					continue
				}
				s.Trig, s.At = "", now+s.Dur
			}
		}
	}
	if t.O.TxLag { // whatever the node has asked its application for arrives within one latency
		for _, h := range Wanted(n) {
			if t.supplying[n] == nil {
				t.supplying[n] = map[vt.H]bool{}
			}
			if tx, ok := t.W.TxByHash(h); ok && !t.supplying[n][h] {
				t.supplying[n][h] = true
				at := t.W.Clock.Sub(t.W.Cfg.Epoch) + time.Duration(t.r("supplylat", 21))*t.O.MaxLat/20
				t.O.Plan = append(t.O.Plan, Sched{At: at, Kind: "supply", Node: n.ID, Tx: tx})
			}
		}
	}
	if bc := n.Broadcasts(); bc != n.bcSeen {
		for c := n.bcSeen + 1; c <= bc; c++ {
			t.trigger("after-broadcast", n, c)
		}
		n.bcSeen = bc
	}
	if n.NeedInit && !n.Crashed {
		if _, ok := t.resetAt[n]; !ok {
			lag := time.Duration(0)
			if t.O.ResetLag > 0 {
				lag = time.Duration(Scramble(t.r("resetlag", 11), 11)) * t.O.ResetLag / 10
			}
			if t.O.SlowApp[n.ID] {
				lag = time.Duration(Scramble(t.r("slowlag", 11), 11)) * t.O.SlowLag / 10
				t.W.Stat("slow_reset")
			}
			t.resetAt[n] = t.W.Clock.Add(lag)
		}
	}
}

func (t *Timed) maybeSetHorizon() {
	if !t.O.HealBound || t.horizonSet {
		return
	}
	for _, s := range t.O.Plan {
		if s.Kind != "tx" && s.Kind != "supply" && !s.done && s.Trig == "" {
			return
		}
	}
	w := t.W
	if len(w.Cut) > 0 {
		return
	}
	vmax, nval := 0, 1
	for _, n := range w.Nodes {
		if n != nil && !n.Crashed && n.D.Validators != nil {
			if int(n.D.ViewNumber) > vmax {
				vmax = int(n.D.ViewNumber)
			}
			nval = len(n.D.Validators)
		}
	}
	exp := vmax + (nval-1)/3 + 5 // F silent primaries, one view lost to the healed fault, one to the wait of a recovering primary (D15), and the doubled timeout of the node that times out first in a silent view (it asks for recovery, not for a view change)
	if exp > 40 {
		exp = 40
	}
	t.O.Horizon = w.Clock.Sub(w.Cfg.Epoch) + time.Duration(t.O.Heights)*w.Cfg.TimePerBlock*(1<<uint(exp))
	t.horizonSet = true
	t.HealView = vmax
}

// step executes the next event; false if nothing can ever happen.
func (t *Timed) step() bool {
	w := t.W
	var next time.Time
	have := false
	upd := func(x time.Time) {
		if !have || x.Before(next) {
			next, have = x, true
		}
	}
	for _, m := range w.Flight {
		upd(m.At)
	}
	for _, n := range w.Nodes {
		if n == nil || n.Crashed {
			continue
		}
		if n.Timer.Pending {
			upd(n.Timer.Deadline())
		}
		if at, ok := t.resetAt[n]; ok {
			upd(at)
		}
		if at, ok := t.nextSync[n]; ok {
			upd(at)
		}
	}
	for i := range t.O.Plan {
		if !t.O.Plan[i].done && t.O.Plan[i].Trig == "" {
			upd(w.Cfg.Epoch.Add(t.O.Plan[i].At))
		}
	}
	if !have {
		return false
	}
	if next.After(w.Clock) {
		w.Clock = next
	}
	// everything due now
	var due []tEvent
	for i := range t.O.Plan {
		if !t.O.Plan[i].done && t.O.Plan[i].Trig == "" && !w.Cfg.Epoch.Add(t.O.Plan[i].At).After(w.Clock) {
			due = append(due, tEvent{kind: "sched", i: i})
		}
	}
	if len(due) == 0 { // external events first, then the rest in drawn order
		for i, m := range w.Flight {
			if !m.At.After(w.Clock) {
				due = append(due, tEvent{kind: "msg", i: i})
			}
		}
		for _, n := range w.Nodes {
			if n == nil || n.Crashed {
				continue
			}
			if n.Timer.Pending && !n.Timer.Deadline().After(w.Clock) {
				due = append(due, tEvent{kind: "timer", n: n})
			}
			if at, ok := t.resetAt[n]; ok && !at.After(w.Clock) {
				due = append(due, tEvent{kind: "reset", n: n})
			}
			if at, ok := t.nextSync[n]; ok && !at.After(w.Clock) {
				due = append(due, tEvent{kind: "sync", n: n})
			}
		}
	}
	if len(due) == 0 {
		return true
	}
	e := due[t.r("due", len(due))]
	t.Events++
	w.Step = t.Events
	switch e.kind {
	case "msg":
		m := w.Flight[e.i]
		dup := t.O.DupPct > 0 && Scramble(t.r("dup", 100), 100) < t.O.DupPct && !m.Dup
		if dup {
			// deliver now and once more a little later
			cp := *m
			cp.Dup = true
			cp.At = w.Clock.Add(time.Duration(t.r("duplat", 21)) * t.O.MaxLat / 20)
			w.Flight = append(w.Flight, &cp)
			w.Stat("dup")
		}
		n := w.Nodes[m.To]
		if n != nil && !n.Crashed && (m.P.Ht > n.D.BlockIndex || (m.P.Ht == n.D.BlockIndex && m.P.V > n.D.ViewNumber)) {
			w.Stat("early_delivery")
		}
		if !w.linked(m.From, m.To) && !m.Pre {
			w.removeFlight(e.i)
			w.Stat("lost_by_cut")
			return true
		}
		w.Deliver(e.i, false)
		if n != nil {
			t.afterCall(n)
		}
	case "timer":
		w.Stat("timeout")
		e.n.Timeouts++
		t.trigger("before-timeout", e.n, e.n.Timeouts)
		w.FireTimer(e.n)
		t.afterCall(e.n)
	case "reset":
		delete(t.resetAt, e.n)
		if e.n.NeedInit {
			w.act("reset(%d) tip=%d", e.n.ID, e.n.Tip)
			e.n.Reset()
			t.afterCall(e.n)
		}
	case "sync":
		n := e.n
		t.nextSync[n] = w.Clock.Add(t.O.SyncPeriod)
		var peers []*Node
		for _, p := range w.Nodes {
			if p != nil && p != n && !p.Crashed && w.linked(p.ID, n.ID) && p.Tip > n.Tip && p.Chain[n.Tip+1] != nil {
				peers = append(peers, p)
			}
		}
		if len(peers) > 0 {
			p := peers[t.r("peer", len(peers))]
			if w.SyncFrom(n, p, 1) > 0 {
				w.Stat("sync")
				n.Synced++
				delete(t.resetAt, n)
				w.act("reset(%d) tip=%d", n.ID, n.Tip)
				n.Reset()
				t.afterCall(n)
			}
		}
	case "sched":
		s := &t.O.Plan[e.i]
		s.done = true
		defer t.maybeSetHorizon()
		switch s.Kind {
		case "cut":
			w.Cut = map[int]bool{}
			for _, id := range s.Set {
				w.Cut[id] = true
			}
			kept := w.Flight[:0]
			for _, m := range w.Flight {
				if w.linked(m.From, m.To) {
					kept = append(kept, m)
				}
			}
			w.Flight = kept
			w.Stat("cut")
			w.act("cut %v", s.Set)
		case "heal":
			w.Cut = map[int]bool{}
			w.act("heal")
		case "crash":
			if n := w.Nodes[s.Node]; n != nil && !n.Crashed {
				n.Crashed, n.Faulty = true, true
				delete(t.resetAt, n)
				w.Stat("crash")
				w.act("crash(%d)", n.ID)
			}
		case "restart":
			if n := w.Nodes[s.Node]; n != nil && n.Crashed && !n.Silent {
				w.Stat("restart")
				w.Restart(n)
				t.afterCall(n)
			}
		case "supply":
			if n := w.Nodes[s.Node]; n != nil && !n.Crashed {
				h := s.Tx.Hash()
				delete(t.supplying[n], h)
				if _, still := n.Want[h]; still {
					delete(n.Want, h)
					n.AddTx(s.Tx)
					w.Stat("supply_tx")
					if t.O.ForeignTxPct > 0 && t.r("foreigntx", 100) < t.O.ForeignTxPct {
						ftx := w.NewTx(false)
						n.AddTx(ftx)
						w.Stat("foreign_tx_passed_before_requested_one")
						w.act("foreignTx(%d) %x", n.ID, uint64(ftx))
						n.Transaction(ftx)
						t.afterCall(n)
					}
					if !n.Crashed {
						w.act("supplyTx(%d) %x", n.ID, uint64(s.Tx))
						n.Transaction(s.Tx)
						t.afterCall(n)
					}
				}
			}
		case "tx":
			it := *s // (the plan may grow below)
			if d := w.Clock.Sub(w.Cfg.Epoch) - t.lastProposal - t.O.TxAvoidGap; !it.Split && t.O.TxAvoidGap > 0 && t.proposals > 0 && d > -t.O.TxAvoidWin && d < t.O.TxAvoidWin {
				w.Stat("tx_arrival_skipped_at_timeout_boundary")
				break
			}
			if !it.Split {
				w.Universe = append(w.Universe, it.Tx)
				w.Stat("tx_arrival")
			}
			if t.O.TxJitter && !it.Split && len(it.To) > 1 {
				for _, id := range it.To {
					t.O.Plan = append(t.O.Plan, Sched{At: it.At + time.Duration(t.r("gossiplat", 21))*t.O.MaxLat/20, Kind: "tx", Tx: it.Tx, To: []int{id}, Split: true})
				}
				w.Stat("tx_arrival_gossiped")
				break
			}
			w.act("tx %x -> %v", uint64(it.Tx), it.To)
			for _, id := range it.To {
				n := w.Nodes[id]
				if n == nil || n.Crashed || !n.AddTx(it.Tx) {
					continue
				}
				// the application tells the library about a transaction it has asked for, and notifies a subscriber
				_, wanted := n.Want[it.Tx.Hash()]
				notify := n.Subscribed
				first := t.r("handfirst", 2) == 0
				for k := 0; k < 2; k++ {
					if wanted && (k == 0) == first {
						delete(n.Want, it.Tx.Hash())
						w.Stat("tx_arrival_wanted")
						n.Transaction(it.Tx)
						t.afterCall(n)
					}
					if notify && (k == 0) != first {
						n.Subscribed = false
						if n.D.IsBackup() && n.D.RequestSentOrReceived() {
							w.Stat("notified_backup_holds_proposal")
						}
						n.NewTransaction()
						t.afterCall(n)
					}
				}
			}
		}
	}
	return true
}

// SortPlan orders the schedule by time.
func SortPlan(p []Sched) {
	sort.SliceStable(p, func(i, j int) bool { return p[i].At < p[j].At })
}
