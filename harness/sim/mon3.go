package sim

import (
	"fmt"
	"time"

	"github.com/nspcc-dev/dbft"
	"github.com/nspcc-dev/dbft/verifharness/vt"
)

// ---- C08 fault-free synchronous runs -------------------------------------------------

func MonC08() *Mon {
	first := map[uint32]vt.H{}
	decided := map[*Node]map[uint32]bool{}
	return &Mon{Name: "C08",
		Panic: func(n *Node, c *Call, msg string) {
			n.W.Fail("C08", fmt.Sprintf("node %d: the library panicked in %s in a fault-free synchronous run (%s): it decides nothing any more", n.ID, c.Kind, msg), "panic-in-fault-free-run")
		},
		Broadcast: func(n *Node, p Payload) {
			switch p.T {
			case dbft.ChangeViewType, dbft.RecoveryRequestType, dbft.RecoveryMessageType:
				if p.T == dbft.RecoveryMessageType && n.Cur != nil && n.Cur.Kind == CNewTransaction {
					// a subscribed backup that has already committed answers the notification by offering its
					// state once more: nothing is asked for (wasteful, but not what the property forbids)
					n.W.Stat("c08_recovery_offered_on_notification")
					return
				}
				key := "cv-or-recovery-in-fault-free-run"
				if p.Ht == 1 && n.W.Cfg.StartTip == 0 {
					key = "D9-genesis-zero-timers"
				}
				n.W.Fail("C08", fmt.Sprintf("node %d broadcast %s in a fault-free synchronous run at t=%s", n.ID, p.Summary(), n.W.Clock.Sub(n.W.Cfg.Epoch)), key)
			}
		},
		ProcessBlock: func(n *Node, b *vt.Block, err error) {
			if err != nil {
				return
			}
			if n.D.ViewNumber != 0 {
				n.W.Fail("C08", fmt.Sprintf("node %d decided height %d in view %d", n.ID, b.Idx, n.D.ViewNumber), "decided-in-higher-view")
			}
			if h, ok := first[b.Idx]; ok && h != b.Hash() {
				n.W.Fail("C08", fmt.Sprintf("node %d accepted a different block at height %d", n.ID, b.Idx), "different-blocks")
			}
			first[b.Idx] = b.Hash()
			// "decides every height": once - a whole round that reached the node before it entered the height must not
			// be decided twice while it is replayed (seeded change C08l)
			if decided[n] == nil {
				decided[n] = map[uint32]bool{}
			}
			if decided[n][b.Idx] {
				n.W.Fail("C08", fmt.Sprintf("node %d handed the block of height %d to the application a second time", n.ID, b.Idx), "decided-twice")
			}
			decided[n][b.Idx] = true
		},
		EndOfRun: func(w *World) {
			t := w.TimedRes
			if t == nil || t.Done || len(w.Viols) > 0 {
				return
			}
			if t.HitLimit == "events" {
				w.Stat("inconclusive")
				return
			}
			tips := ""
			for _, n := range w.Nodes {
				if n != nil {
					tips += fmt.Sprintf(" %d:%d(synced %d)", n.ID, n.Tip, n.Synced)
				}
			}
			w.Fail("C08", fmt.Sprintf("fault-free synchronous run stopped (%s) at t=%s before every node decided %d heights; ledger heights:%s", t.HitLimit, w.Clock.Sub(w.Cfg.Epoch), t.O.Heights, tips), "not-decided")
		},
		AfterCall: func(n *Node, c *Call) {
			if n.Synced > 0 {
				n.W.Fail("C08", fmt.Sprintf("node %d had to fetch a block from a peer in a fault-free run", n.ID), "synced-in-fault-free-run")
			}
		},
	}
}

// ---- progress under faults (C09, and the liveness half of C13) -------------------------

// MonProgress reports under property `prop`. maxView < 0: no bound on the decision view.
func MonProgress(prop string, maxView int) *Mon {
	type hv struct {
		h uint32
		v byte
	}
	props := map[int]map[hv]vt.H{} // per identity (survives restarts): proposals broadcast
	reproposed := map[uint32]bool{} // heights at which a restarted validator broadcast a second, different proposal for one view
	// heights at which the primary of a view entered that view while processing a recovery
	// message: by design (#74) it then waits a whole view timeout instead of proposing at once
	recoveringPrimary := map[uint32]bool{}
	// D20, the dBFT 2.0 liveness lock: a validator that has asked for a view change may still commit in the
	// old view (when more than F others look committed or lost); the rest may then move on with its request.
	askedCV := map[int]map[hv]bool{}
	commitAfterCV := map[uint32]bool{}
	return &Mon{Name: prop + "-progress",
		Panic: func(n *Node, c *Call, msg string) {
			if !n.Faulty {
				n.W.Fail(prop, fmt.Sprintf("node %d: the library panicked in %s (%s): a correct validator is lost for good", n.ID, c.Kind, msg), "panic-of-correct-node")
			}
		},
		AfterCall: func(n *Node, c *Call) {
			if c.Kind == CReceive && c.P.T == dbft.RecoveryMessageType && n.D.BlockIndex == c.PreHeight && n.D.ViewNumber > c.PreView && n.D.IsPrimary() && !n.D.RequestSentOrReceived() {
				recoveringPrimary[n.D.BlockIndex] = true
				n.W.Stat("recovering_primary")
			}
		},
		Broadcast: func(n *Node, p Payload) {
			switch p.T {
			case dbft.ChangeViewType:
				if askedCV[n.ID] == nil {
					askedCV[n.ID] = map[hv]bool{}
				}
				askedCV[n.ID][hv{p.Ht, p.V}] = true
			case dbft.CommitType, dbft.PreCommitType:
				if askedCV[n.ID][hv{p.Ht, p.V}] && !commitAfterCV[p.Ht] {
					commitAfterCV[p.Ht] = true
					n.W.Stat("commit_after_changeview")
				}
			}
			if p.T != dbft.PrepareRequestType {
				return
			}
			m := props[n.ID]
			if m == nil {
				m = map[hv]vt.H{}
				props[n.ID] = m
			}
			k := hv{p.Ht, p.V}
			if old, ok := m[k]; ok && old != p.Hash() && n.Faulty {
				reproposed[p.Ht] = true
				n.W.Stat("restarted_primary_reproposed")
			}
			m[k] = p.Hash()
		},
		ProcessBlock: func(n *Node, b *vt.Block, err error) {
			if err != nil {
				return
			}
			n.W.Stat("decided")
			if n.D.ViewNumber > 0 {
				n.W.Stat("decided_in_higher_view")
			}
			if maxView >= 0 && int(n.D.ViewNumber) > maxView {
				key := "decision-view-too-high"
				if recoveringPrimary[b.Idx] {
					key = "D15-recovering-primary-waits-full-timeout"
				}
				n.W.Fail(prop, fmt.Sprintf("node %d decided height %d in view %d although only %d validators were silent from the start", n.ID, b.Idx, n.D.ViewNumber, maxView), key)
			}
		},
		EndOfRun: func(w *World) {
			t := w.TimedRes
			if t == nil || t.Done || len(w.Viols) > 0 {
				return
			}
			if t.HitLimit == "events" {
				w.Stat("inconclusive")
				return
			}
			key := "stalled"
			// D11 is the stall AT THE HEIGHT of the double proposal, with somebody commit-locked there (on the first
			// proposal, while others follow the second): a stall anywhere else in such a run is not that finding
			stuckAt, locked := uint32(0), false
			for _, n := range w.Nodes {
				if n == nil || n.Crashed || n.Silent || n.D == nil || n.D.Validators == nil || !n.Active() || n.D.BlockSent() {
					continue
				}
				if stuckAt == 0 || n.D.BlockIndex < stuckAt {
					stuckAt, locked = n.D.BlockIndex, false
				}
				if n.D.BlockIndex == stuckAt && (n.D.CommitSent() || n.D.PreCommitSent()) {
					locked = true
				}
			}
			if reproposed[stuckAt] && locked {
				key = "D11-restarted-primary-reproposed"
			} else if h, ok := commitLockedBelow(w); ok && commitAfterCV[h] {
				key = "D20-commit-after-changeview-lock"
			}
			st := ""
			for _, n := range w.Nodes {
				if n == nil {
					continue
				}
				if n.Crashed {
					st += fmt.Sprintf(" %d:down", n.ID)
					continue
				}
				st += fmt.Sprintf(" %d:tip=%d,h=%d,v=%d,cs=%v", n.ID, n.Tip, n.D.BlockIndex, n.D.ViewNumber, n.D.CommitSent() || n.D.PreCommitSent())
			}
			w.Fail(prop, fmt.Sprintf("no progress: run stopped (%s) at t=%s (last fault at %s) before every live node reached height %d;%s", t.HitLimit, w.Clock.Sub(w.Cfg.Epoch), t.LastFault, w.Cfg.StartTip+uint32(t.O.Heights), st), key)
		},
	}
}

// commitLockedBelow reports the dBFT 2.0 lock state at the lowest undecided height of the live validators:
// some of them have sent their commit (or pre-commit) in a view the others have already left, and neither
// the locked ones nor the ones that moved on are M.
func commitLockedBelow(w *World) (uint32, bool) {
	var h uint32
	var at []*Node
	for _, n := range w.Nodes {
		if n == nil || n.Crashed || n.Silent || n.D == nil || !n.Active() || n.D.BlockSent() {
			continue
		}
		if len(at) == 0 || n.D.BlockIndex < h {
			h, at = n.D.BlockIndex, at[:0]
		}
		if n.D.BlockIndex == h {
			at = append(at, n)
		}
	}
	if len(at) == 0 {
		return 0, false
	}
	top := byte(0)
	for _, n := range at {
		top = max(top, n.D.ViewNumber)
	}
	locked, moved := 0, 0
	for _, n := range at {
		if n.D.ViewNumber < top && (n.D.CommitSent() || n.D.PreCommitSent()) {
			locked++
		} else if n.D.ViewNumber == top {
			moved++
		}
	}
	m := at[0].D.M()
	return h, locked > 0 && locked < m && moved < m
}

// ---- C16 dynamic block time ---------------------------------------------------------------

func MonC16() *Mon {
	var lastProp time.Time
	haveLast := false
	return &Mon{Name: "C16",
		Panic: func(n *Node, c *Call, msg string) {
			n.W.Fail("C16", fmt.Sprintf("node %d: the library panicked in %s on a fault-free chain (%s)", n.ID, c.Kind, msg), "panic-in-fault-free-run")
		},
		Subscribe: func(n *Node) {
			if n.W.Cfg.MaxTimePerBlock == 0 {
				n.W.Fail("C16", fmt.Sprintf("node %d: SubscribeForTxs called although the extension is not configured", n.ID), "subscribe-when-off")
			}
			n.W.Stat("c16_subscribed")
		},
		Broadcast: func(n *Node, p Payload) {
			w := n.W
			now := w.Clock
			switch p.T {
			case dbft.ChangeViewType, dbft.RecoveryRequestType:
				w.Fail("C16", fmt.Sprintf("node %d broadcast %s on an idle fault-free chain at t=%s", n.ID, p.Summary(), now.Sub(w.Cfg.Epoch)), "cv-on-idle-chain")
			case dbft.PrepareRequestType:
				ntx := len(p.Body.(*vt.PrepareRequest).Hashes)
				L := w.MaxLat
				if haveLast {
					gap := now.Sub(lastProp)
					if gap < w.Cfg.TimePerBlock-2*L {
						w.Fail("C16", fmt.Sprintf("proposals %s apart, minimum block time is %s (height %d)", gap, w.Cfg.TimePerBlock, p.Ht), "proposals-too-close")
					}
					if ntx == 0 && w.Cfg.MaxTimePerBlock > 0 && gap < w.Cfg.MaxTimePerBlock-2*L {
						w.Fail("C16", fmt.Sprintf("empty proposal only %s after the previous one, maximum block time is %s (height %d)", gap, w.Cfg.MaxTimePerBlock, p.Ht), "empty-proposal-too-early")
					}
					if w.Cfg.MaxTimePerBlock > 0 && gap > w.Cfg.TimePerBlock+2*L {
						w.Stat("c16_extended_wait")
					}
				}
				if c := n.Cur; c != nil && c.Kind == CNewTransaction {
					w.Stat("c16_prompt_proposal")
				}
				lastProp, haveLast = now, true
			}
		},
		AfterCall: func(n *Node, c *Call) {
			// a notification during the extended wait must produce the proposal within the call (at the primary)
			if c.Kind == CNewTransaction && c.PreSub && n.D.IsPrimary() && !c.PreBlockSent && !n.D.BlockSent() {
				if f := n.D.VerifFlags(); f.RttAvg > 0 {
					n.W.Stat("c16_notified_primary_has_rtt_estimate")
					if f.LastBlockIndex+1 == n.D.BlockIndex || f.LastBlockIndex == n.D.BlockIndex {
						n.W.Stat("c16_notified_primary_has_rtt_estimate_and_took_part_before")
					}
				}
				sent := false
				for _, p := range n.Own[n.D.BlockIndex] {
					if p.T == dbft.PrepareRequestType && p.V == n.D.ViewNumber {
						sent = true
					}
				}
				if !sent {
					n.W.Fail("C16", fmt.Sprintf("primary %d was notified of a new transaction during the extended wait but did not propose", n.ID), "no-prompt-proposal")
				}
			}
			// whenever a transaction is in the pool by the end of the minimum-block-time timeout (it may have landed
			// while the node was subscribing, too late for a notification) the proposal is made in that call
			if d := n.D; c.Kind == CTimeout && c.H == c.PreHeight && c.V == c.PreView && d.BlockIndex == c.PreHeight && d.ViewNumber == c.PreView &&
				d.ViewNumber == 0 && d.IsPrimary() && !n.WatchFlag && !d.RequestSentOrReceived() && !c.PreBlockSent {
				if avail := n.cbGetVerifiedQuiet(); avail > 0 {
					n.W.Fail("C16", fmt.Sprintf("primary %d left its timeout at (%d,%d) without a proposal although %d transaction(s) are in its pool", n.ID, c.H, c.V, avail), "waiting-with-transactions")
				}
			}
		},
		EndOfRun: func(w *World) {
			t := w.TimedRes
			if t == nil || t.Done || len(w.Viols) > 0 {
				return
			}
			if t.HitLimit == "events" {
				w.Stat("inconclusive")
				return
			}
			w.Fail("C16", fmt.Sprintf("fault-free run with dynamic block time stopped (%s) at t=%s before %d heights were decided", t.HitLimit, w.Clock.Sub(w.Cfg.Epoch), t.O.Heights), "not-decided")
		},
	}
}

// ---- catching up from recovery messages (C09) ------------------------------------------

// MonRecoveryCatchUp is the positive half of "nodes catch up from recovery messages": when an active
// node has processed a recovery message of (what is now) its own height and view that carries the authentic
// proposal of that view, and nothing entitled it to refuse proposals, it holds a proposal afterwards.
// Necessary condition only: which proposal it holds, and what it did with it, is judged elsewhere.
func MonRecoveryCatchUp(propName string) *Mon {
	refusing := map[*Node]bool{} // before the call: view changing and not (more than F committed or lost)
	free := map[*Node]bool{}     // before the call: undecided and not locked by an own commit or pre-commit
	return &Mon{Name: propName + "-catchup",
		BeforeCall: func(n *Node, c *Call) {
			d := n.D
			refusing[n] = false
			free[n] = d.Validators != nil && !d.BlockSent() && !d.CommitSent() && !d.PreCommitSent()
			if d.Validators == nil || c.Kind != CReceive || !d.ViewChanging() {
				return
			}
			// "more than F committed or lost" as it will stand once the message itself has marked its sender alive
			lost := 0
			for i, hv := range d.LastSeenMessage {
				if i == int(c.P.Idx) && c.P.Ht == d.BlockIndex && c.P.V >= d.ViewNumber {
					continue
				}
				if d.CommitPayloads[i] == nil && d.PreCommitPayloads[i] == nil && (hv == nil || hv.Height < d.BlockIndex || hv.View < d.ViewNumber) {
					lost++
				}
			}
			refusing[n] = d.CountCommitted()+lost <= d.F()
		},
		AfterCall: func(n *Node, c *Call) {
			if c.Kind != CReceive || c.P.T != dbft.RecoveryMessageType || !n.Active() || n.Crashed {
				return
			}
			d, w := n.D, n.W
			// The change views of a recovery message tagged with a higher view are handed over first: when they come
			// from M distinct validators and all ask for a view above the node's, a node that is free to move has
			// left its view when the call is over (it may stop below the highest view asked for: entering a view
			// starts a new count).
			if free[n] && c.P.Ht == c.PreHeight && d.BlockIndex == c.PreHeight && c.P.V > c.PreView && int(c.P.Idx) < len(d.Validators) {
				asked := map[uint16]bool{}
				for _, e := range c.P.Body.(*vt.RecoveryMessage).GetChangeViews(c.P, d.Validators) {
					if cv := e.(Payload); int(cv.Idx) < len(d.Validators) && cv.Ht == c.PreHeight && cv.Body.(*vt.ChangeView).NewView > c.PreView {
						asked[cv.Idx] = true
					}
				}
				if len(asked) >= refM(len(d.Validators)) {
					w.Stat("catchup_recovery_with_m_changeviews")
					if d.ViewNumber == c.PreView {
						w.Fail(propName, fmt.Sprintf("node %d at (%d,%d): a recovery message for view %d carrying change views of %d distinct validators (M=%d) for higher views was processed, yet the node stays in its view", n.ID, d.BlockIndex, d.ViewNumber, c.P.V, len(asked), refM(len(d.Validators))), "recovery-view-not-entered")
					}
				}
			}
			if d.BlockIndex != c.P.Ht || d.ViewNumber != c.P.V || d.BlockSent() {
				return
			}
			if c.PreView == d.ViewNumber && c.PreHeight == d.BlockIndex && refusing[n] {
				return // entitled to ignore preparations of the view it has asked to leave (judged on entry: the
				// preparations of a recovery message are replayed before its commits are counted)
			}
			N := len(d.Validators)
			pi := refPrimary(d.BlockIndex, d.ViewNumber, N)
			var prop Payload
			for _, e := range c.P.Body.(*vt.RecoveryMessage).Embedded {
				if e.T == dbft.PrepareRequestType && e.Ht == d.BlockIndex && e.V == d.ViewNumber && int(e.Idx) == pi && authenticAt(w, e, d.BlockIndex) &&
					!PolicyRejected(e.Body.(*vt.PrepareRequest).N) {
					prop = e
				}
			}
			if prop == nil {
				return
			}
			w.Stat("catchup_recovery_with_proposal")
			if c.PreView != d.ViewNumber || c.PreHeight != d.BlockIndex {
				w.Stat("catchup_view_changed_inside_recovery")
			}
			if d.PreparationPayloads[pi] == nil {
				w.Fail(propName, fmt.Sprintf("node %d at (%d,%d): a recovery message carrying the proposal of that view (%s) was processed, yet the node holds no proposal", n.ID, d.BlockIndex, d.ViewNumber, prop.Summary()), "recovery-proposal-not-restored")
			}
		},
	}
}

// ---- the fault bound in use (C06) ------------------------------------------------------

// MonC06 checks, in every state a world reaches, that the thresholds the library applies are those of the
// current validator count: F and M themselves, and the "more than F validators committed or lost" test that
// decides whether a node which has asked for a view change may still finish the old view (with exactly F
// committed or lost the other N-F = M validators can still change view, so it may not).
func MonC06() *Mon {
	type seen struct {
		h  uint32
		v  byte
		ok bool
	}
	before := map[*Node][]seen{}
	beforeH := map[*Node]uint32{}
	return &Mon{Name: "C06",
		BeforeCall: func(n *Node, c *Call) {
			d := n.D
			before[n] = before[n][:0]
			if d == nil || d.Validators == nil {
				return
			}
			beforeH[n] = d.BlockIndex
			for _, hv := range d.LastSeenMessage {
				if hv == nil {
					before[n] = append(before[n], seen{})
				} else {
					before[n] = append(before[n], seen{hv.Height, hv.View, true})
				}
			}
		},
		AfterCall: func(n *Node, c *Call) {
			d := n.D
			if d == nil || d.Validators == nil || n.Crashed {
				return
			}
			N := len(d.Validators)
			F := refF(N)
			// who counts as lost rests on the last (height, view) each validator was heard at: within a height that
			// record only moves forward (a late message of an old view does not make a live validator lost again)
			if b := before[n]; c.Kind != CStart && c.Kind != CReset && beforeH[n] == d.BlockIndex && len(b) == len(d.LastSeenMessage) {
				for i, hv := range d.LastSeenMessage {
					if b[i].ok && b[i].h == d.BlockIndex && (hv == nil || hv.Height < b[i].h || (hv.Height == b[i].h && hv.View < b[i].v)) {
						n.W.Fail("C06", fmt.Sprintf("node %d at (%d,%d): validator %d was last heard at (%d,%d), after %s the record says %v", n.ID, d.BlockIndex, d.ViewNumber, i, b[i].h, b[i].v, c.Kind, hv), "last-seen-regressed")
					}
				}
			}
			if d.F() != F || d.M() != N-F || d.N() != N {
				n.W.Fail("C06", fmt.Sprintf("node %d: N()=%d F()=%d M()=%d with %d validators", n.ID, d.N(), d.F(), d.M(), N), "quorum-arithmetic")
			}
			// "committed or lost" counted by the harness over the tables, every validator once (the library's own
			// CountCommitted/CountFailed are the subject: a validator holding both a pre-commit and a commit is one)
			committed, lost := 0, 0
			for i := 0; i < N && i < len(d.CommitPayloads) && i < len(d.PreCommitPayloads) && i < len(d.LastSeenMessage); i++ {
				if d.CommitPayloads[i] != nil || d.PreCommitPayloads[i] != nil {
					committed++
				} else if hv := d.LastSeenMessage[i]; hv == nil || hv.Height < d.BlockIndex || hv.View < d.ViewNumber {
					lost++
				}
			}
			sum := committed + lost
			if d.CountCommitted() != committed || d.CountFailed() != lost {
				n.W.Fail("C06", fmt.Sprintf("node %d at (%d,%d): %d validators hold a commit or pre-commit and %d more were not heard in this view, yet CountCommitted()=%d CountFailed()=%d", n.ID, d.BlockIndex, d.ViewNumber, committed, lost, d.CountCommitted(), d.CountFailed()), "committed-or-lost-count")
			}
			if sum == F && F > 0 {
				n.W.Stat("c06_exactly_f_committed_or_lost")
				if d.ViewChanging() {
					n.W.Stat("c06_exactly_f_while_view_changing")
				}
			}
			if got := d.MoreThanFNodesCommittedOrLost(); got != (sum > F) {
				n.W.Fail("C06", fmt.Sprintf("node %d at (%d,%d): %d validators committed or lost, F=%d, yet MoreThanFNodesCommittedOrLost()=%v", n.ID, d.BlockIndex, d.ViewNumber, sum, F, got), "more-than-f-threshold")
			}
			if got := d.NotAcceptingPayloadsDueToViewChanging(); got != (d.ViewChanging() && sum <= F) {
				n.W.Fail("C06", fmt.Sprintf("node %d at (%d,%d): view changing=%v, %d committed or lost, F=%d, yet NotAcceptingPayloadsDueToViewChanging()=%v", n.ID, d.BlockIndex, d.ViewNumber, d.ViewChanging(), sum, F, got), "more-than-f-threshold")
			}
			if int(d.PrimaryIndex) != refPrimary(d.BlockIndex, d.ViewNumber, N) {
				n.W.Fail("C06", fmt.Sprintf("node %d at (%d,%d): PrimaryIndex=%d with %d validators", n.ID, d.BlockIndex, d.ViewNumber, d.PrimaryIndex, N), "primary-index-field")
			}
		},
	}
}
