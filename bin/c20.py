"""C20: the shipped TLA+ models keep their stated invariants.

Generated-behaviour search on the specifications themselves: TLC's random
simulation mode (-simulate) produces seeded random behaviours of each .tla file
as it is in /repo's working tree, and evaluates the spec's own invariants on
every generated state, for every constant assignment its ASSUME clauses allow
with four validators.
"""
import glob, hashlib, json, os, random, re, shutil, subprocess, sys, time
from concurrent.futures import ThreadPoolExecutor

ROOT = os.path.dirname(os.path.dirname(os.path.abspath(__file__)))
EVDIR = os.environ.get("VERIF_EVIDENCE_DIR") or os.path.join(ROOT, "evidence")  # scratch runs (bin/tryseed) must not clobber the evidence
FM = os.path.join(os.environ.get("VERIF_REPO") or "/repo", "formal-models")
MODELS = [
    # key, relative path, invariants, constraint, extra constants
    ("dbft", "dbft/dbft.tla", ["TypeOK", "InvTwoBlocksAccepted", "InvFaultNodesCount"], "MaxViewConstraint", {}),
    ("dbft_antiMEV", "dbft_antiMEV/dbft.tla", ["TypeOK", "InvTwoBlocksAccepted", "InvFaultNodesCount"], "MaxViewConstraint", {}),
    ("dbftMultipool", "dbftMultipool/dbftMultipool.tla", ["TypeOK", "InvTwoBlocksAccepted", "InvFaultNodesCount"], "ModelConstraint", {"MaxUndeliveredMessages": "6"}),
    ("dbftCV3", "dbft2.1_threeStagedCV/dbftCV3.tla", ["TypeOK", "InvTwoBlocksAccepted", "InvFaultNodesCount"], "MaxViewConstraint", {}),
    ("dbftCentralizedCV", "dbft2.1_centralizedCV/dbftCentralizedCV.tla", ["TypeOK", "InvTwoBlocksAcceptedAdvanced", "InvFaultNodesCount"], "MaxViewConstraint", {}),
]


def assignments(rng):
    """every fault assignment the ASSUME clauses allow for RM={0..3} (F=1), the node drawn"""
    k1, k2, k3 = rng.randrange(4), rng.randrange(4), rng.randrange(4)
    return [("none", "{}", "{}"), ("faulty%d" % k1, "{%d}" % k1, "{}"), ("dead%d" % k2, "{}", "{%d}" % k2), ("faultydead%d" % k3, "{%d}" % k3, "{%d}" % k3)]


def write_cfg(path, invs, constraint, consts):
    with open(path, "w") as f:
        f.write("INIT Init\nNEXT Next\nCONSTANTS\n")
        for k, v in consts.items():
            f.write("  %s = %s\n" % (k, v))
        f.write("CONSTRAINT %s\nINVARIANTS %s\n" % (constraint, " ".join(invs)))


def run_tlc(job):
    d = job["dir"]
    os.makedirs(d, exist_ok=True)
    src = os.path.join(FM, job["path"])
    mod = os.path.basename(src)
    shutil.copyfile(src, os.path.join(d, mod))
    cfg = os.path.join(d, "model.cfg")
    write_cfg(cfg, job["invs"], job["constraint"], job["consts"])
    sim = "num=%d" % job["num"]
    if job.get("dump"):
        sim += ",file=%s" % os.path.join(d, "tr")
    cmd = ["java", "-XX:+UseParallelGC", "-Xmx1g", "-cp", "/opt/veriftools/tla/tla2tools.jar:/opt/veriftools/tla/CommunityModules-deps.jar", "tlc2.TLC",
           "-simulate", sim, "-depth", str(job["depth"]), "-seed", str(job["seed"]), "-workers", str(job["workers"]), "-deadlock",
           "-metadir", os.path.join(d, "states"), "-config", cfg, mod]
    t0 = time.time()
    try:
        p = subprocess.run(cmd, cwd=d, stdout=subprocess.PIPE, stderr=subprocess.STDOUT, text=True, timeout=job["timeout"])
        out, rc = p.stdout, p.returncode
    except subprocess.TimeoutExpired as e:
        out, rc = (e.stdout or b"").decode() if isinstance(e.stdout, bytes) else (e.stdout or ""), -9
    job["wall"] = time.time() - t0
    job["out"], job["rc"] = out, rc
    ms = re.findall(r"(\d+) states checked, (\d+) traces generated", out)  # TLC prints a progress line every minute: the last one counts
    job["states"] = int(ms[-1][0]) if ms else 0
    job["traces"] = int(ms[-1][1]) if ms else 0
    mv = re.search(r"Invariant (\w+) is violated", out)
    job["violated"] = mv.group(1) if mv else None
    job["error"] = None
    if not mv and (rc not in (0,) or "Error:" in out):
        # parse / semantic / evaluation errors are infrastructure trouble, not violations
        me = re.search(r"(Error: .*|\*\*\* Errors.*|Parse error.*|Semantic error.*|Exception.*)", out)
        job["error"] = me.group(1)[:300] if me else "TLC exit code %d" % rc
    if job.get("dump"):
        nt, seen = 0, set()
        for f in glob.glob(os.path.join(d, "tr_*")):
            txt = open(f).read()
            acts = re.findall(r"\\\* <(\w+)", txt)
            if '"blockAccepted"' in txt and (re.search(r"view \|-> [12]", txt) or '"bad"' in txt or '"dead"' in txt):
                h = hashlib.sha1(" ".join(acts).encode()).hexdigest()
                if h not in seen:
                    seen.add(h)
                    nt += 1
                    if "sample" not in job:
                        job["sample"] = {"model": job["model"], "assignment": job["assign"], "MaxView": job["consts"]["MaxView"], "actions": acts[:60]}
        job["nontrivial"] = nt
        job["dumped"] = len(glob.glob(os.path.join(d, "tr_*")))
    return job


def check_trace(doc, workdir):
    """Re-validates a stored counterexample against the spec in the working tree: a tiny TLA+ module walks
    the recorded states and requires every step to satisfy the spec's own Next; TLC (BFS) then reports the
    invariant violation iff the recorded behaviour is still a behaviour of the spec."""
    os.makedirs(workdir, exist_ok=True)
    src = os.path.join(FM, doc["path"])
    mod = os.path.basename(src)[:-4]
    shutil.copyfile(src, os.path.join(workdir, mod + ".tla"))
    recs = []
    for st in doc["states"]:
        fields = {}
        cur = None
        for line in st["tla"].splitlines():
            m = re.match(r"^/\\ (\w+) = (.*)$", line)
            if m:
                cur = m.group(1)
                fields[cur] = m.group(2)
            elif cur:
                fields[cur] += "\n" + line
        recs.append("[" + ", ".join("%s |-> (%s)" % (k, v) for k, v in fields.items()) + "]")
    vars_ = list(re.findall(r"^/\\ (\w+) =", doc["states"][0]["tla"], re.M))
    tm = "---- MODULE TraceCheck ----\nEXTENDS %s, Sequences, TLC\nVARIABLE tidx\nTrace == <<\n%s\n>>\n" % (mod, ",\n".join(recs))
    tm += "TInit == tidx = 1 /\\ " + " /\\ ".join("%s = Trace[1].%s" % (v, v) for v in vars_) + " /\\ Init\n"
    tm += "TNext == tidx < Len(Trace) /\\ tidx' = tidx + 1 /\\ " + " /\\ ".join("%s' = Trace[tidx + 1].%s" % (v, v) for v in vars_) + " /\\ Next\n====\n"
    open(os.path.join(workdir, "TraceCheck.tla"), "w").write(tm)
    with open(os.path.join(workdir, "TraceCheck.cfg"), "w") as f:
        f.write("INIT TInit\nNEXT TNext\nCONSTANTS\n")
        for k, v in doc["consts"].items():
            f.write("  %s = %s\n" % (k, v))
        f.write("INVARIANTS %s\n" % doc["invariant"])
    cmd = ["java", "-XX:+UseParallelGC", "-Xmx1g", "-cp", "/opt/veriftools/tla/tla2tools.jar:/opt/veriftools/tla/CommunityModules-deps.jar", "tlc2.TLC",
           "-deadlock", "-workers", "1", "-metadir", os.path.join(workdir, "states"), "-config", "TraceCheck.cfg", "TraceCheck.tla"]
    p = subprocess.run(cmd, cwd=workdir, stdout=subprocess.PIPE, stderr=subprocess.STDOUT, text=True, timeout=300)
    if "Invariant %s is violated" % doc["invariant"] in p.stdout:
        return "violated", p.stdout
    if "No error has been found" in p.stdout or "Model checking completed" in p.stdout:
        return "ok", p.stdout
    return "error", p.stdout


def main(prop, spec, argv, seed, chk):
    tier = argv[0]
    t0 = time.time()
    base = os.path.join(chk.BUILD, "tla-%d" % os.getpid())
    shutil.rmtree(base, ignore_errors=True)
    outdir = os.path.join(ROOT, "out", prop)
    os.makedirs(outdir, exist_ok=True)
    try:
        jobs = []
        if tier == "--replay":
            r = json.load(open(argv[1]))
            j = dict(r.get("job") or {"model": "x", "path": "x", "invs": [], "constraint": "x", "consts": {"MaxView": "1"}, "assign": "x", "num": 1, "depth": 1, "seed": 1, "workers": 1, "timeout": 10})
            j["dir"] = os.path.join(base, "replay")
            jobs = [j]
        else:
            rng = random.Random(seed * 104729 + 5)
            par = spec[tier]
            for (key, path, invs, constraint, extra) in MODELS:
                for mv in (1, 2):
                    for (aname, fault, dead) in assignments(rng):
                        consts = {"RM": "{0, 1, 2, 3}", "RMFault": fault, "RMDead": dead, "MaxView": str(mv)}
                        consts.update(extra)
                        s = rng.randrange(1, 2**31 - 1)
                        num = par["num"]
                        if mv == 2 and aname == "none" and "deepnum" in par:
                            # the largest fault-free space: violations that need two consecutive view changes showed up
                            # only after ~0.5 M behaviours (seeded change C20c)
                            num = par["deepnum"].get(key, par["deepnum"]["default"])
                        workers = par["workers"]
                        if aname == "none" and key in par.get("deep", {}):
                            # the fault-free spaces of the two dBFT 2.1 models: violations there sit behind two dozen specific steps
                            # (seeded changes C20j, C20k, C20l, C20m - the last one needed ~145 000 behaviours at MaxView=1)
                            num = max(num, par["deep"][key].get(str(mv), num))
                            workers = par.get("deepworkers", workers)
                        jobs.append({"model": key, "path": path, "invs": invs, "constraint": constraint, "consts": consts, "assign": aname,
                                     "num": num, "depth": par["depth"], "seed": s, "workers": workers, "timeout": par["timeout"],
                                     "dir": os.path.join(base, "%s-mv%d-%s" % (key, mv, aname))})
                        if mv == 2:
                            jobs.append({"model": key, "path": path, "invs": invs, "constraint": constraint, "consts": consts, "assign": aname, "dump": True,
                                         "num": par["dumpnum"], "depth": par["depth"], "seed": s + 1, "workers": 1, "timeout": par["timeout"],
                                         "dir": os.path.join(base, "%s-mv%d-%s-dump" % (key, mv, aname))})
        # stored counterexamples (replays/C20/*.json) are re-validated against the working tree first
        trace_results = []
        if tier != "--replay":
            for f in sorted(glob.glob(os.path.join(ROOT, "replays", prop, "*.json"))):
                doc = json.load(open(f))
                verdict, tout = check_trace(doc, os.path.join(base, "trace-" + os.path.basename(f)[:-5]))
                kind = "".join(ch for ch in doc["assign"] if not ch.isdigit())
                trace_results.append((f, "%s:%s:%s" % (doc["model"], doc["invariant"], kind), verdict, tout))
        elif "states" in json.load(open(argv[1])):
            doc = json.load(open(argv[1]))
            verdict, tout = check_trace(doc, os.path.join(base, "trace-replay"))
            print(tout[-5000:])
            if verdict == "violated":
                print("VIOLATION property=%s replay=%s" % (prop, os.path.abspath(argv[1])))
                return 1
            return 0 if verdict == "ok" else 2
        with ThreadPoolExecutor(max_workers=(1 if tier == "--replay" else spec[tier]["parallel"])) as ex:
            res = list(ex.map(run_tlc, jobs))
        viols, errors = [], []
        opens, _fixed = chk.load_known()
        known = {o["key"]: o for o in opens if o.get("prop") == prop}
        known_hits = {}
        for j in res:
            if j["violated"]:
                kind = "".join(ch for ch in j["assign"] if not ch.isdigit())
                key = "%s:%s:%s" % (j["model"], j["violated"], kind)
                j["key"] = key
                if tier != "--replay" and key in known:
                    known_hits[key] = known_hits.get(key, 0) + 1
                    continue
                path = os.path.join(outdir, "C20-%s-mv%s-%s-%s.json" % (j["model"], j["consts"]["MaxView"], j["assign"], j["violated"]))
                slim = {k: v for k, v in j.items() if k not in ("out", "dir", "sample")}
                json.dump({"property": prop, "invariant": j["violated"], "job": slim, "tlc_output_tail": j["out"][-12000:]}, open(path, "w"), indent=1)
                print("violation detail: [%s] model %s (%s, MaxView=%s): invariant %s violated in a generated behaviour" % (key, j["model"], j["assign"], j["consts"]["MaxView"], j["violated"]))
                if path not in viols:
                    viols.append(path)
            elif j["error"]:
                errors.append("%s/%s/mv%s: %s" % (j["model"], j["assign"], j["consts"]["MaxView"], j["error"]))
        if tier == "--replay":
            print(res[0]["out"][-6000:])
            if viols:
                print("VIOLATION property=%s replay=%s" % (prop, os.path.abspath(argv[1])))
                return 1
            return 2 if errors else 0
        for (f, key, verdict, tout) in trace_results:
            if verdict == "violated":
                if key in known:
                    known_hits[key] = known_hits.get(key, 0) + 1
                else:
                    print("violation detail: [%s] stored counterexample %s is (again) a behaviour of the spec and violates the invariant" % (key, os.path.relpath(f, ROOT)))
                    viols.append(f)
            elif verdict == "error":
                errors.append("trace check %s: %s" % (os.path.basename(f), tout[-300:].replace("\n", " | ")))
        for key in sorted(known_hits):
            print(known[key]["line"])
        traces = sum(j["traces"] for j in res)
        states = sum(j["states"] for j in res)
        nt = sum(j.get("nontrivial", 0) for j in res)
        samples = [j["sample"] for j in res if "sample" in j][:4]
        per_model = {}
        for j in res:
            pm = per_model.setdefault(j["model"], {"traces": 0, "states": 0, "configs": 0, "nontrivial_in_dumps": 0, "dumped": 0})
            pm["traces"] += j["traces"]
            pm["states"] += j["states"]
            pm["configs"] += 0 if j.get("dump") else 1
            pm["nontrivial_in_dumps"] += j.get("nontrivial", 0)
            pm["dumped"] += j.get("dumped", 0)
        ev = {
            "property_id": prop, "tier": tier, "seed": seed, "level": "exploration",
            "coverage": {
                "evaluations": traces, "distinct_nontrivial": nt, "rule": spec["rule"],
                "samples": samples or ["(no trace dumped)"], "states": states, "per_model": per_model,
                "configurations": len([j for j in res if not j.get("dump")]),
                "known_finding_hits": known_hits,
                "tlc": "TLC2 random simulation (-simulate), depth %d" % spec[tier]["depth"],
            },
            "assumptions": spec["assumptions"], "wall_s": round(time.time() - t0, 1), "violations": len(viols),
        }
        os.makedirs(EVDIR, exist_ok=True)
        json.dump(ev, open(os.path.join(EVDIR, prop + ".json"), "w"), indent=1, sort_keys=True)
        print("%s %s: %d configurations, %d behaviours, %d states, %d distinct non-trivial dumped behaviours, wall %.1fs" % (
            prop, tier, ev["coverage"]["configurations"], traces, states, nt, time.time() - t0))
        for p in viols:
            print("VIOLATION property=%s replay=%s" % (prop, p))
        if viols:
            return 1
        if errors:
            for e in errors[:5]:
                print("INFRA: " + e)
            return 2
        return 0
    finally:
        shutil.rmtree(base, ignore_errors=True)
