# Per-property run parameters for bin/check.
ASYNC_ASSUME = [
    "ideal signatures: the harness never produces a payload carrying another identity's index (cannot forge)",
    "application contract as read off callers/docs: Start once, Reset only after the ledger advanced and never inside ProcessBlock, GetVerified returns distinct transactions",
    "Byzantine behaviour is limited to the grammar in harness/sim/async.go",
    "crypto/rand.Reader is replaced by a deterministic reader (proposal nonces)",
]

def rapid(test, rule, qcases, tcases, shards=16, assumptions=None, qtimeout=900, ttimeout=3000, env=None, tscale=1):
    return {"test": test, "rule": rule, "shards": shards,
            "quick": {"cases": qcases, "timeout": qtimeout},
            "thorough": {"cases": tcases, "timeout": ttimeout, "scale": tscale},
            "assumptions": assumptions or ASYNC_ASSUME, "env": env or {}}

CHECKS = {
    "C01": rapid("TestC01",
        "case = one adversarial-asynchronous world (N, faulty identities <=F, anti-MEV mode, scheduler profile, action sequence) drawn by rapid; "
        "non-trivial = at least two honest nodes accepted a block at the same height AND the run contained a view change, Byzantine traffic, a restart or an early (cached) delivery; "
        "distinct = 64-bit hash of the full choice stream",
        10000, 150000),
    "C02": rapid("TestC02",
        "case = one adversarial-asynchronous world with mis-timed valid/invalid (pre)commits; non-trivial = a block or pre-block was accepted in a run where a (pre)commit arrived early or an invalid (pre)commit was held at acceptance; distinct = hash of the choice stream",
        10000, 150000),
    "C03": rapid("TestC03",
        "case = one adversarial-asynchronous world; non-trivial = some honest node broadcast a commit/pre-commit and afterwards received a timeout or a ChangeView of its height; distinct = hash of the choice stream",
        10000, 150000),
    "C04": rapid("TestC04",
        "case = one adversarial-asynchronous world (N up to 10); non-trivial = a commit/pre-commit or a view change was checked in a run with early deliveries or with a non-matching preparation present; distinct = hash of the choice stream",
        8000, 120000),
    "C10": rapid("TestC10",
        "case = one adversarial-asynchronous world; non-trivial = a timeout of the current epoch was consumed or a view changed; distinct = hash of the choice stream",
        10000, 150000),
    "C05": rapid("TestC05",
        "case = one multi-height adversarial-asynchronous world (up to 5 heights, delayed Reset, ledger sync skipping heights, 40% with validator lists changing size/membership/own index, leftover and early cross-height traffic); "
        "non-trivial = a re-initialisation was checked in a run with skipped heights, a changing validator set, early traffic for the new height or calls arriving after the decision; distinct = hash of the choice stream",
        3500, 50000),
    "C07": rapid("TestC07",
        "case = one adversarial-asynchronous world with anti-MEV off / on from genesis / switching on at the 2nd height, scripted ProcessPreBlock/ProcessBlock failures, early pre-commits; "
        "non-trivial = (an anti-MEV commit was checked in a run with early deliveries or a failing pre-block callback) or a pre-commit was delivered while anti-MEV was off; distinct = hash of the choice stream",
        10000, 150000),
    "C11": rapid("TestC11",
        "case = one adversarial-asynchronous world used as a random prefix, with probe actions: one inadmissible input of each listed class or the re-delivery of a stored payload, whole-state fingerprint compared before/after; every API call runs under panic capture; a second generator drives one node as the speaker of 1-6 heights of a committee of 24-200 validators; "
        "non-trivial = a probe hit a node with >=2 non-empty tables; distinct = hash of the choice stream",
        4000, 60000),
    "C12": rapid("TestC12",
        "case = one adversarial-asynchronous world with many transactions unknown to some nodes, supplied in drawn order interleaved with everything else; "
        "non-trivial = an obligation with >=2 requested transactions and >=1 other event between the supplies was checked; distinct = hash of the choice stream",
        10000, 150000),
    "C13": rapid("TestC13",
        "case = one adversarial-asynchronous world with a non-validator observer and (1/3) a validator carrying the watch-only flag; "
        "non-trivial = the watch-only index was primary of some (height, view) the node entered; distinct = hash of the choice stream",
        6000, 90000),
    "C08": rapid("TestC08",
        "case = one fault-free timed world (N 1..7, 3-6 heights, start at genesis in 1/4 of the runs, anti-MEV off/on/switching, latency <= TimePerBlock/20 drawn per message, drawn order inside an instant, 0/10/40% duplicates, Reset lagging by up to two latencies; a fifth of the worlds with a rotating committee: n of n+1 honest identities, one resting per height); "
        "non-trivial = the run completed and contained at least one early (cached) delivery and one duplicate; distinct = hash of the choice stream",
        8000, 120000, assumptions=ASYNC_ASSUME + ["synchrony: latency and Reset lag are far below TimePerBlock; timers fire exactly at their deadline"]),
    "C09": rapid("TestC09",
        "case = one timed world (N 4..10) of a drawn fault family: (i) <=F validators silent from the start, preferably the primaries of the first views; (ii) a drawn subset cut off at a drawn instant or event for up to 30 block times, then healed; (iii) crash + amnesia restart of one validator (preferably the current primary); (iv) silent validators and a healed partition; (v) silent validators and another validator that goes down at a drawn instant or right after its k-th own broadcast and comes back with empty state; "
        "after the last fault latency <= TimePerBlock/20 and every node runs ledger block-sync with a drawn period; horizon = last fault + heights*TimePerBlock*2^(highest view then + F + 4); hitting the event budget is inconclusive, never a violation; "
        "non-trivial = the run completed and had a decision in view>0, a ledger sync or a restart; distinct = hash of the choice stream",
        8000, 120000, assumptions=ASYNC_ASSUME + ["'eventually' is replaced by the stated virtual-time horizon", "applications fetch missing blocks from reachable peers (the contract's 'received by other means')"]),
    "C16": rapid("TestC16",
        "case = one fault-free timed world with MaxTimePerBlock/TimePerBlock in {1,1.5,2,3,8} (or off), identical pools, per height a transaction arriving never / before the minimum / during the extended wait (kept 4 latencies away from the 2*TimePerBlock race); "
        "non-trivial = some round entered the extended wait; distinct = hash of the choice stream",
        8000, 120000, assumptions=ASYNC_ASSUME + ["latency = TimePerBlock/50; gaps are judged with a tolerance of two latencies"]),
    "C06": rapid("TestC06",
        "enumeration: every validator count N=1..65535 (context initialised through Start/Reset) x every view 0..255 x boundary ledger heights {N-1, 2^31-1, 2^32-1} (all of {0,1,2,N-1,N,N+1,2^31-1,2^31,2^32-2,2^32-1} for N<=4096; for every N in the thorough tier); "
        "rotation over N consecutive views for N<=256 and over N consecutive heights for N<=512; plus rapid-drawn (N, height, view) triples checked against a big-integer reference; "
        "non-trivial = N>1 or negative (h-v) or h>=2^31; cases are distinct by construction (grid points) / by (N,h,v) for drawn ones",
        2000, 20000, assumptions=["F_ref is computed by search (largest f with 3f+1<=N), the primary by 64-bit and big-integer arithmetic"]),
    "C14": rapid("TestC14",
        "case = one single-node script (driver B: N 1..7, primary and backup roles, responses after drawn delays, change views, recovery requests, transactions, 1-3+ heights, dynamic block time 1/4) executed three times: at epoch E, at E+delta (delta = k*7*999983 s, a multiple of every increment in use, |k| up to 300, past and future; a sixth of the scripts on a clock that starts 100-1300 s after the Unix epoch, moved forward only) and again at E after the wall clock moved; "
        "oracle: identical sequences of payload summaries (hashes up to renaming), Timer.Reset/Extend arguments and accepted blocks, absolute timestamps shifted by exactly delta; "
        "non-trivial = the script had a primary round with a response after a non-zero delay followed by a Reset (the RTT estimate feeds a timer); distinct = hash of the choice stream",
        5000, 75000, assumptions=["the harness value types and callbacks are themselves clock-free; crypto/rand.Reader is replaced by a deterministic reader"]),
    "C15": rapid("TestC15",
        "case = one single-node script in which the node proposes as primary (at Start, after Reset at the timer, in views >0), with previous-block timestamps before/around/after the clock, increments {1,7,999983,1e6,1e9} ns, pools of 0..20 transactions with a drawn per-block limit (one script in a few hundred: 65536-65543 transactions, no limit), clock stepping backwards; "
        "non-trivial = a proposal was made with an unaligned clock and a non-empty pool, or with the clock at or behind the previous block's timestamp; distinct = hash of the choice stream",
        20000, 300000, assumptions=["the zone prev < trunc(clock) < prev+inc is only bounded (two readings of the statement)"]),
    "C19": rapid("TestC19",
        "five generated families over the reference implementations: (1) payloads of every kind built through the exported constructors (recovery messages filled through AddPayload): equal fields => equal hash, one mutated field => different hash, decode(encode(p)) observationally equal incl. rebuilt proposal/responses/change views/(pre)commits; (2) blocks / anti-MEV blocks: hash vs content, signature does not change the hash and verifies only for that key and content; (3) ECDSA sign/verify incl. altered data/signature/other key; (4) Merkle root vs leaf/order/add/remove changes; (5) decoder fed random bytes and corrupted/truncated valid encodings: error or value, never panic, accepted values survive their own round trip; thorough adds native fuzzing of (5); "
        "non-trivial = recovery message with >=2 embedded payloads, proposal/block with >=2 transactions, >=3 Merkle leaves, non-empty signed data, or a corrupted valid encoding; distinct = hash of the generated value",
        10000, 150000, assumptions=["sound domain: ChangeView bodies with newView = view+1, 64-byte signatures, 4-byte pre-commit data, duplicate-free hash lists, blocks whose transactions were set", "pre-commit and anti-MEV commit payloads are rejected by the reference decoder (allowed)"]),
}
CHECKS["C19"]["fuzz"] = [("FuzzC19Decode", 150)]
CHECKS["C11"]["fuzz"] = [("FuzzC11", 240)]
CHECKS["C17"] = {
    "custom": "c17",
    "rule": "case = one configuration of the real simulation binary built from the working tree (-count 1..7, -watchers 0..3, -txblock 0..3, -txcount in {0,1,3,100,2000}, GOMAXPROCS in {1,2,4,16}, 17-31 s of wall time; block interval is hard-coded to 5 s); the documented shape (4 validators + 1 watcher), a run whose transaction pools run dry after 1-3 blocks, a single-validator run (32-41 s), a run without transactions and a run with one blocked validator (-blocked k with k in 1..3 so that it is the speaker within the first 10 s, 4-7 validators, 32-41 s; the blocked node hears everybody and is judged like the others) and a large committee (72-80 validators, 22 s, judged on a quorum: every height approved by at least M validators, because the example itself drops messages when a channel is full) are always included; "
            "oracle on its log: every validator and watcher approves consecutive heights 1..k with floor(D/5)-1 <= k <= floor(D/5)+2, one hash per height across nodes, no panic; non-trivial = count >= 2; distinct = distinct configurations",
    "quick": {"runs": 7, "parallel": 7},
    "thorough": {"runs": 16, "parallel": 4},
    "assumptions": ["goroutine schedules of the real program are sampled, not owned", "wall-clock based: bounds are one block of slack below and two above", "runs are isolated in network namespaces (the program binds localhost:6060) or serialised with a lock"],
}
CHECKS["C18"] = rapid("TestC18",
    "case = one sequence of 3-14 operations on the real timer: Reset(h,v,d) with d in {0, 1-30 ms, 40-120 ms} (a third of them repeating the previous reset's arguments exactly), Extend(0-40 ms), Sleep(0-45 ms), non-blocking read, blocking read; model with interval bounds (never early w.r.t. latest reset + duration + extensions; expiry within 2 s after the deadline, and not more than 35 ms late at the same operation in each of 4 executions of the sequence; zero duration fires at once; Height/View of the latest reset; no second expiry for one arming unless an Extend moved the deadline beyond the read); "
    "non-trivial = the sequence contains a reset after an unread expiry, an extend after a zero-duration reset or an extend that re-arms a consumed timer; distinct = the rendered sequence",
    150, 1500, assumptions=["real time: only the 'never early' direction is strict; lateness: hard tolerance 2 s, 35 ms when it repeats in 4 executions; an Extend racing the deadline within the s0..s1 microseconds is not judged"])
CHECKS["C20"] = {
    "custom": "c20",
    "rule": "case = one random behaviour generated by TLC's simulation mode from one of the five shipped .tla files as they are in the working tree, for RM={0,1,2,3}, MaxView in {1,2} (MaxUndeliveredMessages=6 for the multipool model) and every fault assignment the ASSUME clauses allow (none / one faulty / one dead / one faulty-and-dead, node drawn from VERIF_SEED); the spec's own TypeOK, InvTwoBlocksAccepted (InvTwoBlocksAcceptedAdvanced for centralizedCV) and InvFaultNodesCount are evaluated on every generated state under the shipped state constraint; "
            "non-trivial (measured on separately dumped behaviours only) = a behaviour in which a block is accepted and that contains a view > 0 or a bad/dead node; distinct = hash of the action-name sequence",
    "quick": {"num": 1500, "dumpnum": 60, "depth": 80, "workers": 2, "parallel": 8, "timeout": 900,
              "deep": {"dbftCV3": {"1": 60000, "2": 15000}, "dbftCentralizedCV": {"1": 10000, "2": 10000}}, "deepworkers": 4},
    "thorough": {"num": 30000, "dumpnum": 400, "depth": 100, "workers": 2, "parallel": 8, "timeout": 3400, "deepnum": {"default": 900000, "dbftMultipool": 150000}},
    "assumptions": ["TLC (tla2tools 1.8.0) evaluates the specs faithfully", "random simulation, not exhaustive model checking: behaviours are sampled up to the stated depth", "liveness/temporal properties of the specs are not checked"],
}
