"""C17: the bundled simulation keeps extending its chain.

Generated configurations of the *real* program (flags, GOMAXPROCS), built from
/repo's working tree, run for a bounded wall-clock time; oracle on its log.
"""
import fcntl, json, os, random, re, shutil, subprocess, sys, time

ROOT = os.path.dirname(os.path.dirname(os.path.abspath(__file__)))
EVDIR = os.environ.get("VERIF_EVIDENCE_DIR") or os.path.join(ROOT, "evidence")  # scratch runs (bin/tryseed) must not clobber the evidence
LINE = re.compile(r'approving block\s+(\{.*\})')


def gen_config(rng, thorough, cls=None):
    """one configuration; cls forces a class: 'drain' = the pools run dry (empty blocks must keep the chain going),
    'empty' = no transactions at all"""
    count = rng.choice([1, 2, 3, 4, 4, 5, 6, 7, 7])
    watchers = rng.choice([0, 0, 1, 2, 3])
    blocked = -1  # by default nobody is blocked (class "blocked" sets one)
    txblock = rng.choice([0, 1, 1, 2, 3])
    txcount = rng.choice([2000, 2000, 100, 3, 1, 0])
    if cls == "drain":
        txblock, txcount = rng.choice([1, 2, 3]), rng.choice([1, 2, 3])
    elif cls == "blocked":
        # one validator whose payloads everybody drops: at the heights it is the speaker of, the others change view at once
        # it is chosen so that it becomes the speaker within the first 10 s, and the run is long enough to see what happens after that
        count = rng.choice([4, 5, 6, 7])
        blocked = rng.choice([1, 2, 3])
        txblock, txcount = 3, 2000  # proposals of three transactions in every tier (seeded change C17k needs >= 3 per block)
    elif cls == "single":
        count = 1  # a lone validator decides inside Start()/OnTimeout(), never inside OnReceive()
    elif cls == "empty":
        txblock, txcount = rng.choice([0, 1]), (0 if rng.random() < 0.5 else 2000)
        if txblock == 1:
            txcount = 0
    elif cls == "large":
        # a large committee: the speaker of one round hears more backups than the default shape produces in minutes
        # (the round-trip estimator's 70-slot ring wraps in the first round; seeded change C17j)
        count, watchers, txblock, txcount = rng.choice([72, 76, 80]), 0, rng.choice([1, 3]), 200
    procs = rng.choice([1, 2, 4, 16])
    dur = rng.choice([17, 19, 22] if not thorough else [17, 22, 25, 31])
    if cls == "large":
        procs, dur = 16, 22
    if cls in ("blocked", "single"):
        # long enough to tell a block every 10 s from one every 5 s (a lone validator is woken by its timer only)
        dur = 32 if not thorough else rng.choice([32, 41])
    return {"count": count, "watchers": watchers, "blocked": blocked, "txblock": txblock, "txcount": txcount, "gomaxprocs": procs, "duration": dur}


def run_one(binary, cfg, use_netns):
    args = [binary, "-count", str(cfg["count"]), "-watchers", str(cfg["watchers"]), "-blocked", str(cfg["blocked"]),
            "-txblock", str(cfg["txblock"]), "-txcount", str(cfg.get("txcount", 2000)), "-duration", "%ds" % cfg["duration"]]
    if use_netns:
        args = ["unshare", "-n", "sh", "-c", "ip link set lo up 2>/dev/null; exec \"$@\"", "sh"] + args
    env = dict(os.environ)
    env["GOMAXPROCS"] = str(cfg["gomaxprocs"])
    t0 = time.time()
    p = subprocess.run(args, stdout=subprocess.PIPE, stderr=subprocess.STDOUT, text=True, env=env, timeout=cfg["duration"] + 60)
    wall = time.time() - t0
    per_node = {}
    hashes = {}
    for line in p.stdout.splitlines():
        m = LINE.search(line)
        if not m:
            continue
        try:
            d = json.loads(m.group(1))
        except ValueError:
            continue
        per_node.setdefault(d["id"], []).append(d["height"])
        hashes.setdefault(d["height"], set()).add(d["hash"])
    return p.returncode, wall, per_node, hashes, p.stdout


def judge(cfg, rc, per_node, hashes, out):
    """returns (violation key or None, message)"""
    D = cfg["duration"]
    if "panic:" in out or "fatal error" in out:
        idx = out.find("panic:") if "panic:" in out else out.find("fatal error")
        if "address already in use" in out:
            return "INFRA", "pprof port busy"
        return "panic", out[idx:idx + 600]
    lo, hi = D // 5 - 1, D // 5 + 2
    nodes = cfg["count"] + cfg["watchers"]
    for h, hs in hashes.items():
        if len(hs) > 1:
            return "different-blocks", "height %d approved with hashes %s" % (h, sorted(hs))
    if cfg["count"] > 16:
        # large committees: the example drops messages when a node's channel is full ("channel is full"), and a node
        # that misses a block has no way to fetch it - on the unchanged tree a few of the 72-80 nodes fall behind.
        # Judged: the chain keeps growing on a quorum - every height 1..k approved by at least M validators, k as
        # for the small shapes but with two blocks of slack below (80 ECDSA nodes share 16 cores).
        m = cfg["count"] - (cfg["count"] - 1) // 3
        k = 0
        while sum(1 for nid in range(cfg["count"]) if k + 1 in per_node.get(nid, [])) >= m:
            k += 1
        if k < max(1, lo - 1):
            key = "stopped-after-first-block" if k <= 1 else "too-few-blocks"
            return key, "only heights 1..%d were approved by a quorum (%d of %d validators) in %ds (expected at least %d)" % (k, m, cfg["count"], D, max(1, lo - 1))
        return None, ""
    for nid in range(nodes):
        hts = per_node.get(nid, [])
        # (the blocked validator hears everybody, only its own payloads are dropped: it has to keep up like the others)
        if hts != list(range(1, len(hts) + 1)):
            return "non-consecutive-heights", "node %d approved heights %s" % (nid, hts)
        if len(hts) < lo:
            key = "stopped-after-first-block" if len(hts) <= 1 else "too-few-blocks"
            return key, "node %d approved only %d block(s) in %ds (expected at least %d at one block per 5s)" % (nid, len(hts), D, lo)
        if len(hts) > hi:
            return "too-many-blocks", "node %d approved %d blocks in %ds (expected at most %d)" % (nid, len(hts), D, hi)
    return None, ""


def main(prop, spec, argv, seed, chk):
    tier = argv[0]
    t0 = time.time()
    os.makedirs(chk.BUILD, exist_ok=True)
    binary = os.path.join(chk.BUILD, "simulation-%d" % os.getpid())
    b = subprocess.run(["go", "build", "-o", binary, "./internal/simulation"], cwd=chk.REPO, env=chk.goenv(), stdout=subprocess.PIPE, stderr=subprocess.STDOUT, text=True)
    if b.returncode != 0:
        print(b.stdout[-3000:])
        chk.fail_infra("cannot build the simulation from /repo")
    outdir = os.path.join(ROOT, "out", prop)
    os.makedirs(outdir, exist_ok=True)
    try:
        if tier == "--replay":
            cfg = json.load(open(argv[1]))["config"]
            runs = [cfg]
        else:
            rng = random.Random(seed * 7919 + 17)
            n = spec[tier]["runs"]
            runs = [gen_config(rng, tier == "thorough") for _ in range(n)]
            # always include the documented default shape (scaled down) once, one run whose pools run dry,
            # one with a single validator and one without any transactions
            runs[0] = {"count": 4, "watchers": 1, "blocked": -1, "txblock": 1, "txcount": 2000, "gomaxprocs": 16, "duration": runs[0]["duration"]}
            runs[1] = gen_config(rng, tier == "thorough", "drain")
            if n > 2:
                runs[2] = gen_config(rng, tier == "thorough", "single")
            if n > 3:
                runs[3] = gen_config(rng, tier == "thorough", "empty")
            if n > 4:
                runs[4] = gen_config(rng, tier == "thorough", "blocked")
            if n > 5:
                runs[5] = gen_config(rng, tier == "thorough", "large")
        netns = subprocess.run(["unshare", "-n", "true"], stdout=subprocess.DEVNULL, stderr=subprocess.DEVNULL).returncode == 0
        results = []
        viols = []
        lock = open(os.path.join(chk.BUILD, "sim.lock"), "w")
        overloaded, retried, notjudged = [], [], []

        def do(cfg):
            for attempt in range(3):
                if not netns:
                    fcntl.flock(lock, fcntl.LOCK_EX)
                try:
                    rc, wall, per_node, hashes, out = run_one(binary, cfg, netns)
                finally:
                    if not netns:
                        fcntl.flock(lock, fcntl.LOCK_UN)
                key, msg = judge(cfg, rc, per_node, hashes, out)
                if key == "too-few-blocks" and attempt < 2:
                    # a wall-clock verdict: confirmed by one repetition, and not judged at all on a machine whose load
                    # average exceeds 1.5 x its cores (two quick runs were a block or two short under a load average of
                    # 70 on 16 cores; a run that stops after its first block is judged regardless)
                    overloaded.append(os.getloadavg()[0] > 1.5 * (os.cpu_count() or 1))
                    if not netns:
                        fcntl.flock(lock, fcntl.LOCK_EX)
                    try:
                        rc2, wall2, per2, hashes2, out2 = run_one(binary, cfg, netns)
                    finally:
                        if not netns:
                            fcntl.flock(lock, fcntl.LOCK_UN)
                    key2, msg2 = judge(cfg, rc2, per2, hashes2, out2)
                    if key2 != "too-few-blocks":
                        retried.append(1)
                        return rc2, wall2, per2, hashes2, out2, (None if key2 == "INFRA" else key2), msg2
                    if overloaded[-1] or os.getloadavg()[0] > 1.5 * (os.cpu_count() or 1):
                        notjudged.append(1)
                        return rc2, wall2, per2, hashes2, out2, None, "not judged: machine overloaded"
                    return rc2, wall2, per2, hashes2, out2, key2, msg2 + " (in two runs of this configuration)"
                if key != "INFRA":
                    return rc, wall, per_node, hashes, out, key, msg
                time.sleep(2)
            return rc, wall, per_node, hashes, out, key, msg

        if netns and len(runs) > 1:
            from concurrent.futures import ThreadPoolExecutor
            with ThreadPoolExecutor(max_workers=spec[tier].get("parallel", 2)) as ex:
                outs = list(ex.map(do, runs))
        else:
            outs = [do(c) for c in runs]
        infra = False
        for cfg, (rc, wall, per_node, hashes, out, key, msg) in zip(runs, outs):
            blocks = {str(k): len(v) for k, v in sorted(per_node.items())}
            results.append({"config": cfg, "blocks_per_node": blocks, "heights": len(hashes), "wall_s": round(wall, 1), "verdict": key or "ok"})
            if key == "INFRA":
                infra = True
            elif key:
                path = os.path.join(outdir, "C17-%s-%d.json" % (key, len(viols)))
                json.dump({"property": prop, "key": key, "message": msg, "config": cfg, "log_tail": out[-4000:]}, open(path, "w"), indent=1)
                print("violation detail: [%s] %s (config %s)" % (key, msg, cfg))
                viols.append(path)
        if tier == "--replay":
            for p in viols:
                print("VIOLATION property=%s replay=%s" % (prop, os.path.abspath(argv[1])))
            return 1 if viols else 0
        nontriv = {json.dumps(r["config"], sort_keys=True) for r in results if r["config"]["count"] >= 2 and r["verdict"] != "INFRA"}
        ev = {
            "property_id": prop, "tier": tier, "seed": seed, "level": "exploration",
            "coverage": {
                "evaluations": len(results), "distinct_nontrivial": len(nontriv),
                "rule": spec["rule"], "samples": results[:6], "all_runs": results, "network_namespaces": netns,
                "too_few_blocks_not_repeated": len(retried), "too_few_blocks_not_judged_machine_overloaded": len(notjudged),
            },
            "assumptions": spec["assumptions"], "wall_s": round(time.time() - t0, 1), "violations": len(viols),
        }
        os.makedirs(EVDIR, exist_ok=True)
        json.dump(ev, open(os.path.join(EVDIR, prop + ".json"), "w"), indent=1, sort_keys=True)
        print("%s %s: %d runs of the real simulation binary, %d non-trivial, wall %.1fs" % (prop, tier, len(results), len(nontriv), time.time() - t0))
        for p in viols:
            print("VIOLATION property=%s replay=%s" % (prop, p))
        if viols:
            return 1
        if infra:
            chk.fail_infra("simulation could not bind its debug port")
        return 0
    finally:
        try:
            os.remove(binary)
        except OSError:
            pass
