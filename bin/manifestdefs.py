HOOK_COMMITS = ["a2e3426"]
NOTE_ASYNC = ("Trusted base: the harness value types (ideal MAC signatures, loss-free payloads), the Byzantine grammar and scheduler profiles in harness/sim, "
              "rapid v1.3.0 as the generator/shrinker, and the reading of the application contract (Start once, Reset after the ledger advanced). Search, not proof: absence of a counterexample within the generated shapes.")
META = {
 "C01": {"text": "Randomised adversarial schedules (delivery order, loss, duplication, timeouts at any moment, cuts, amnesia restarts, Byzantine payloads incl. equivocation) over real library instances; oracle: at most one accepted block hash per height among honest nodes, evaluated at every ProcessBlock. Exploration is the honest level: the space is unbounded and the oracle is exact.",
         "design_ref": "DESIGN.md 4/C01", "note": NOTE_ASYNC, "technique": "stateful property-based testing (rapid) of N real instances under an adversarial scheduler; history invariant oracle"},
 "C02": {"text": "Same worlds with mis-timed valid/invalid (pre)commits; oracle re-verifies, at the instant of ProcessBlock/ProcessPreBlock, that M current-view (pre)commits verify against exactly that block, that it extends the reported tip and equals the stored primary proposal.",
         "design_ref": "DESIGN.md 4/C02", "note": NOTE_ASYNC, "technique": "stateful property-based testing (rapid); certificate re-validation oracle at the acceptance callbacks"},
 "C03": {"text": "Oracle over every honest node's complete broadcast history: one proposal/response per view, one commit/pre-commit per height, no view move or ChangeView after a (pre)commit, retransmissions identical, own views non-decreasing.",
         "design_ref": "DESIGN.md 4/C03", "note": NOTE_ASYNC, "technique": "stateful property-based testing (rapid); broadcast-history invariant"},
 "C04": {"text": "At every honest broadcast the oracle recomputes, from the delivery history and from the exported tables, whether the evidence the property demands (primary's proposal, transactions, successful verification, M matching preparations, M change views) was really there.",
         "design_ref": "DESIGN.md 4/C04", "note": NOTE_ASYNC, "technique": "stateful property-based testing (rapid); history-based and table-based necessary-condition oracles"},
 "C10": {"text": "After every API call on an undecided validator the virtual timer must be pending for exactly (height, view) with a non-negative duration; a consumed timeout must re-arm it.",
         "design_ref": "DESIGN.md 4/C10", "note": NOTE_ASYNC, "technique": "stateful property-based testing (rapid) with an injected virtual timer; post-call invariant"},
}
NOT_APPLICABLE = []
