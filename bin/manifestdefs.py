HOOK_COMMITS = ["a2e3426"]  # /repo: verif_export.go
NOTE_ASYNC = ("Trusted base: the harness value types (ideal MAC signatures, loss-free payloads), the Byzantine grammar and scheduler profiles in harness/sim, "
              "rapid v1.3.0 as the generator/shrinker, and the reading of the application contract (Start once, Reset after the ledger advanced). Search, not proof: absence of a counterexample within the generated shapes.")
META = {
 "C01": {"text": "Randomised adversarial schedules (delivery order, loss, duplication, timeouts at any moment, cuts, amnesia restarts, Byzantine payloads incl. equivocation) over real library instances; oracle: at most one accepted block hash per height among honest nodes, evaluated at every ProcessBlock. Exploration is the honest level: the space is unbounded and the oracle is exact.",
         "design_ref": "DESIGN.md 4/C01", "note": NOTE_ASYNC, "technique": "stateful property-based testing (rapid) of N real instances under an adversarial scheduler; history invariant oracle"},
 "C02": {"text": "Same worlds with mis-timed valid/invalid (pre)commits; oracle re-verifies, at the instant of ProcessBlock/ProcessPreBlock, that M current-view (pre)commits verify against exactly that block, that it extends the reported tip and equals the stored primary proposal.",
         "design_ref": "DESIGN.md 4/C02", "note": NOTE_ASYNC, "technique": "stateful property-based testing (rapid); certificate re-validation oracle at the acceptance callbacks"},
 "C03": {"text": "Oracle over every honest node's complete broadcast history: one proposal/response per view, one commit/pre-commit per height, no view move or ChangeView after a (pre)commit, retransmissions identical, own views non-decreasing.",
         "design_ref": "DESIGN.md 4/C03", "note": NOTE_ASYNC, "technique": "stateful property-based testing (rapid); broadcast-history invariant"},
 "C04": {"text": "At every honest broadcast the oracle recomputes, from the delivery history and from the exported tables, whether the evidence the property demands (primary's proposal, transactions, successful verification, M matching preparations, M change views) was really there.",
         "design_ref": "DESIGN.md 4/C04", "note": NOTE_ASYNC, "technique": "stateful property-based testing (rapid); history-based and table-based necessary-condition oracles"},
 "C10": {"text": "After every API call on an undecided validator the virtual timer must be pending for exactly (height, view) with a non-negative duration; a consumed timeout must re-arm it.",
         "design_ref": "DESIGN.md 4/C10", "note": NOTE_ASYNC, "technique": "stateful property-based testing (rapid) with an injected virtual timer; post-call invariant"},
}
META.update({
 "C05": {"text": "Multi-height runs with delayed Reset, ledger sync, changing validator lists and cross-height traffic; oracle: <=1 accepted block per height and node, whole-state fingerprint unchanged by any call between acceptance and Reset (only recovery replies allowed), and a field-by-field audit of the state right after Reset/Start incl. the unexported cache (verif accessor).",
         "design_ref": "DESIGN.md 4/C05", "note": NOTE_ASYNC + " The fingerprint and the cache audit rely on the add-only `verif` accessors.", "technique": "stateful property-based testing (rapid); state-audit and quiescence oracles"},
 "C07": {"text": "Per-node order of PreCommit broadcast, ProcessPreBlock success, NewBlockFromContext, Block.Sign and Commit broadcast is checked at every callback; below the enabling height any pre-commit activity is a violation and delivered pre-commits must leave the fingerprint unchanged.",
         "design_ref": "DESIGN.md 4/C07", "note": NOTE_ASYNC, "technique": "stateful property-based testing (rapid); callback-order oracle"},
 "C11": {"text": "Random reachable states x one input of each inadmissible class (or re-delivery of a stored payload): whole-state fingerprint, broadcast count and callback count must not change; all calls of all worlds run under panic capture. Thorough adds native coverage-guided fuzzing of the same driver.",
         "design_ref": "DESIGN.md 4/C11", "note": NOTE_ASYNC + " Inadmissible = decidable at delivery time as listed in the property; future-view pre-commits with anti-MEV off are not asserted.", "technique": "property-based testing (rapid) with differential state fingerprint; native go fuzzing in the thorough tier"},
 "C12": {"text": "Obligation tracking per node: the hashes passed to RequestTx for the stored proposal; once the harness has supplied all of them while the preconditions of the property held, a PrepareResponse naming the proposal or a ChangeView must have been broadcast by the return of the last OnTransaction. Adversarial worlds plus a single-node generator for the nested case (view change and a cached next-view proposal, possibly re-proposing the same transactions, inside OnTransaction).",
         "design_ref": "DESIGN.md 4/C12", "note": NOTE_ASYNC, "technique": "stateful property-based testing (rapid); obligation/answer oracle"},
 "C13": {"text": "Zero Broadcast / Block.Sign / PreBlock.SetData events on any node that is outside the validator list or carries the watch-only flag, in every state the adversarial driver reaches, incl. being primary at Start and after Reset; timed worlds in which the validators around a flagged validator must progress as if it were silent; and a single-node generator for a flagged validator whose peers relay what its index sent before the flag was set (own proposal, responses, commits, alone or in recovery messages).",
         "design_ref": "DESIGN.md 4/C13", "note": NOTE_ASYNC, "technique": "stateful property-based testing (rapid); silence oracle on instrumented callbacks"},
})
NOTE_TIMED = NOTE_ASYNC + " Timed mode is a discrete-event simulation: virtual clock, latencies drawn in [0,L], timers fire at their deadline; liveness is judged against an explicit virtual-time horizon."
META.update({
 "C08": {"text": "Fault-free synchronous discrete-event runs with drawn delivery order (per-message latencies, and a phase-skew class in which whole phases of a round reach drawn nodes in a drawn order), duplicates and lagging Reset; oracle: every validator accepts every height in view 0 on one block, nobody ever broadcasts ChangeView / RecoveryRequest / RecoveryMessage, nobody needs ledger sync.",
         "design_ref": "DESIGN.md 4/C08", "note": NOTE_TIMED, "technique": "property-based testing (rapid) over a discrete-event simulation of real instances; history oracle"},
 "C09": {"text": "Three generated fault families (silent validators, arbitrary cut+heal, crash+amnesia restart) followed by synchrony; oracle: every live validator reaches the target height before a generous explicit horizon, and (family i, first height) decides in a view <= number of silent validators.",
         "design_ref": "DESIGN.md 4/C09", "note": NOTE_TIMED + " Bounded liveness only: 'eventually' = the stated horizon.", "technique": "property-based testing (rapid) with fault injection over a discrete-event simulation; bounded-progress oracle"},
 "C16": {"text": "Fault-free timed runs with the dynamic block time extension; oracle on virtual instants of PrepareRequest broadcasts: gap >= TimePerBlock, empty proposal only after MaxTimePerBlock, notification during the extended wait proposes within the call, no ChangeView/RecoveryRequest, SubscribeForTxs only when configured.",
         "design_ref": "DESIGN.md 4/C16", "note": NOTE_TIMED, "technique": "property-based testing (rapid) over a discrete-event simulation; timing oracle on broadcast instants"},
})
META.update({
 "C06": {"text": "The N x view grid is enumerated completely (exhaustive: true in the evidence) at boundary heights incl. the int32 and uint32 edges, against an independent reference; rotation properties are checked by marking visited indices.",
         "design_ref": "DESIGN.md 4/C06", "note": "Trusted base: the reference arithmetic in the test (search for F, int64/big.Int for the primary). Heights are sampled at boundaries + random draws, not enumerated.", "technique": "exhaustive generation of the finite N x view domain + rapid-drawn heights; differential oracle against a reference implementation"},
})
META.update({
 "C14": {"text": "Metamorphic relation over generated single-node scripts: shifting the injected clock (and the absolute previous-block timestamp) by a constant leaves every payload, timer duration and accepted block unchanged up to that shift, re-running later on the same virtual clock is bit-identical (no wall-clock input), and shifting only the injected clock while every input keeps its value leaves the payload sequence, every timer duration and the decided heights unchanged.",
         "design_ref": "DESIGN.md 4/C14", "note": "Trusted base: harness value types are clock-free; scripts refer to the node's own outputs only, so both runs follow the same script exactly when the node behaves the same.", "technique": "metamorphic property-based testing (rapid): clock-shift relation between paired runs"},
 "C15": {"text": "Instrumented NewPrepareRequest / GetVerified / NewBlockFromContext / Broadcast: the proposal equals the context values and the pool in order, timestamp > previous and = truncated clock whenever that is larger, and the primary's own block carries the same values - over drawn clocks, increments, pools, views and backward clock steps.",
         "design_ref": "DESIGN.md 4/C15", "note": "Trusted base: the monitor's own timestamp arithmetic.", "technique": "property-based testing (rapid) of one real instance with scripted peers; direct oracle on constructor arguments"},
})
META.update({
 "C19": {"text": "Round-trip, single-field-mutation, sign/verify and Merkle oracles over generated values of the bundled reference payload/block/crypto code, plus decoder robustness on random and corrupted bytes (rapid; native fuzzing in the thorough tier).",
         "design_ref": "DESIGN.md 4/C19", "note": "Trusted base: Go's crypto/ecdsa, sha256 and encoding/gob; the observable() rendering used to compare payloads reads every getter the library uses, in the library's order.", "technique": "property-based testing (rapid): round-trip, mutation and differential oracles; native go fuzzing of the decoder (thorough)"},
})
META.update({
 "C17": {"text": "The real example binary is built from the working tree and run under generated flag/GOMAXPROCS configurations for a bounded wall-clock time; its log must show every node approving consecutive heights at about one per 5 s, identical hashes per height.",
         "design_ref": "DESIGN.md 4/C17", "note": "Weakest of the checks: schedules are sampled by the Go runtime, not generated; the input space that is generated is the configuration.", "technique": "generated-configuration testing of the real binary with a log oracle (random configurations seeded from VERIF_SEED)", "engine": "c17"},
})
META.update({
 "C18": {"text": "Generated operation sequences on the real timer.Timer compared with an interval model on the monotonic clock: early expiry, stale expiry after a later reset, lost expiry (2 s tolerance), non-immediate zero duration and wrong Height/View are violations.",
         "design_ref": "DESIGN.md 4/C18", "note": "Depends on real time; early-ness is load independent, lateness is judged with 2 s slack only.", "technique": "model-based property testing (rapid) of the real timer against an interval model"},
})
META.update({
 "C20": {"text": "Seeded random behaviours of each shipped TLA+ specification (TLC -simulate) with the spec's own invariants as the oracle on every generated state, over all admissible fault assignments for four validators and MaxView 1 and 2; the .tla files are read from the working tree at run time.",
         "design_ref": "DESIGN.md 4/C20", "note": "Trusted base: TLC. Sampling, not exhaustive exploration (exhaustive BFS with a faulty node at MaxView=2 does not finish in minutes and would be a different technique).", "technique": "random simulation of the specification (TLC -simulate) with invariant oracle = generated-behaviour testing at model level", "engine": "tlc-simulate"},
})
NOT_APPLICABLE = []
